package c02

// Amplification structures: small, well-formed PDF files in which a shared
// object is reachable along exponentially many paths (a DAG, not a cycle, so a
// visited-set for cycles does not help) or along one very long path. A reader
// that walks such a graph without memoising or bounding the walk never
// returns: the "never loops forever / bounded time" clause of C02 for inputs
// that no single or double fault of a valid document produces. Every file here
// is a few kilobytes.

import (
	"bytes"
	"fmt"
	"sort"
	"strings"
	"testing"

	"pgregory.net/rapid"

	"verif/harness/vr"
)

// rawPDF writes the numbered object bodies with a classic cross-reference table.
func rawPDF(objs map[int]string, root int) []byte {
	nums := make([]int, 0, len(objs))
	for n := range objs {
		nums = append(nums, n)
	}
	sort.Ints(nums)
	max := nums[len(nums)-1]
	var b bytes.Buffer
	b.WriteString("%PDF-1.7\n%\xe2\xe3\xcf\xd3\n")
	off := map[int]int{}
	for _, n := range nums {
		off[n] = b.Len()
		fmt.Fprintf(&b, "%d 0 obj\n%s\nendobj\n", n, objs[n])
	}
	x := b.Len()
	fmt.Fprintf(&b, "xref\n0 %d\n0000000000 65535 f \n", max+1)
	for n := 1; n <= max; n++ {
		if o, ok := off[n]; ok {
			fmt.Fprintf(&b, "%010d 00000 n \n", o)
		} else {
			b.WriteString("0000000000 00000 f \n")
		}
	}
	fmt.Fprintf(&b, "trailer\n<< /Size %d /Root %d 0 R >>\nstartxref\n%d\n%%%%EOF\n", max+1, root, x)
	return b.Bytes()
}

func stream(dict, data string) string {
	return fmt.Sprintf("<< %s /Length %d >>\nstream\n%s\nendstream", dict, len(data), data)
}

const helv = "<< /Type /Font /Subtype /Type1 /BaseFont /Helvetica >>"

func refs(n, times int) string {
	return strings.TrimSpace(strings.Repeat(fmt.Sprintf("%d 0 R ", n), times))
}

// pageTreeDAG: every /Pages node lists the next level `fan` times; the last level is a page or has no kids.
func pageTreeDAG(depth, fan int, leafPage bool, count string) []byte {
	o := map[int]string{1: "<< /Type /Catalog /Pages 2 0 R >>"}
	for i := 0; i < depth; i++ {
		parent := ""
		if i > 0 {
			parent = fmt.Sprintf("/Parent %d 0 R ", 1+i)
		}
		o[2+i] = fmt.Sprintf("<< /Type /Pages %s/Kids [%s] /Count %s >>", parent, refs(3+i, fan), count)
	}
	last := 2 + depth
	if leafPage {
		o[last] = fmt.Sprintf("<< /Type /Page /Parent %d 0 R /MediaBox [0 0 612 792] /Resources << /Font << /F1 %d 0 R >> >> /Contents %d 0 R >>", last-1, last+1, last+2)
		o[last+1] = helv
		o[last+2] = stream("", "BT /F1 12 Tf 72 700 Td (leaf) Tj ET")
	} else {
		o[last] = fmt.Sprintf("<< /Type /Pages /Parent %d 0 R /Kids [] /Count 0 >>", last-1)
	}
	return rawPDF(o, 1)
}

// formDAG: the page paints form X0 `fan` times, X_i paints X_{i+1} `fan` times, the last form shows text.
func formDAG(depth, fan int, inheritRes bool) []byte {
	o := map[int]string{
		1: "<< /Type /Catalog /Pages 2 0 R >>",
		2: "<< /Type /Pages /Kids [3 0 R] /Count 1 >>",
		3: "<< /Type /Page /Parent 2 0 R /MediaBox [0 0 612 792] /Resources << /Font << /F1 4 0 R >> /XObject << /X0 10 0 R >> >> /Contents 5 0 R >>",
		4: helv,
		5: stream("", strings.Repeat("/X0 Do ", fan)),
	}
	for i := 0; i < depth; i++ {
		res := fmt.Sprintf("/Resources << /Font << /F1 4 0 R >> /XObject << /X%d %d 0 R >> >>", i+1, 11+i)
		if inheritRes && i%2 == 1 {
			res = fmt.Sprintf("/Resources << /XObject << /X%d %d 0 R >> >>", i+1, 11+i)
		}
		o[10+i] = stream("/Type /XObject /Subtype /Form /BBox [0 0 612 792] "+res, strings.Repeat(fmt.Sprintf("/X%d Do ", i+1), fan))
	}
	o[10+depth] = stream("/Type /XObject /Subtype /Form /BBox [0 0 612 792] /Resources << /Font << /F1 4 0 R >> >>", "BT /F1 12 Tf 72 700 Td (leaf) Tj ET")
	return rawPDF(o, 1)
}

// resolveDAG hangs a DAG of dictionaries/arrays (each level refers to the next one `fan` times) below a key of
// the page's resources, the page itself or the catalogue.
func resolveDAG(depth, fan int, where string) []byte {
	dag := "20 0 R"
	o := map[int]string{4: helv, 5: stream("", "BT /F1 12 Tf 72 700 Td (text) Tj ET")}
	for i := 0; i < depth; i++ {
		if i%2 == 0 {
			o[20+i] = "[" + refs(21+i, fan) + "]"
		} else {
			var kv []string
			for k := 0; k < fan; k++ {
				kv = append(kv, fmt.Sprintf("/K%d %d 0 R", k, 21+i))
			}
			o[20+i] = "<< " + strings.Join(kv, " ") + " >>"
		}
	}
	o[20+depth] = "<< /Type /ExtGState /LW 1 >>"
	cat, page, res := "", "", "/Font << /F1 4 0 R >>"
	switch where {
	case "extgstate":
		res += " /ExtGState << /G0 " + dag + " >>"
	case "properties":
		res += " /Properties << /P0 " + dag + " >>"
	case "fontdict":
		res = "/Font << /F1 4 0 R /F2 " + dag + " >>"
	case "annots":
		page = " /Annots " + dag
	case "outlines":
		cat = " /Outlines " + dag
	case "names":
		cat = " /Names << /Dests " + dag + " >>"
	case "metadata":
		cat = " /Metadata " + dag
	case "info":
		// handled by the caller through the trailer? the catalogue's /PieceInfo is the closest legal place
		cat = " /PieceInfo " + dag
	}
	o[1] = "<< /Type /Catalog /Pages 2 0 R" + cat + " >>"
	o[2] = "<< /Type /Pages /Kids [3 0 R] /Count 1 >>"
	o[3] = "<< /Type /Page /Parent 2 0 R /MediaBox [0 0 612 792] /Resources << " + res + " >> /Contents 5 0 R" + page + " >>"
	return rawPDF(o, 1)
}

// longChain: one very long path (no sharing): page tree of depth n with one kid per level, or n nested forms.
func longPageChain(n int) []byte { return pageTreeDAG(n, 1, true, "1") }

// prevChain: n incremental updates, each with its own cross-reference section pointing at the previous one.
func prevChain(n int) []byte {
	base := rawPDF(map[int]string{
		1: "<< /Type /Catalog /Pages 2 0 R >>",
		2: "<< /Type /Pages /Kids [3 0 R] /Count 1 >>",
		3: "<< /Type /Page /Parent 2 0 R /MediaBox [0 0 612 792] /Resources << /Font << /F1 4 0 R >> >> /Contents 5 0 R >>",
		4: helv,
		5: stream("", "BT /F1 12 Tf 72 700 Td (base) Tj ET"),
	}, 1)
	b := bytes.NewBuffer(base)
	prev := bytes.LastIndex(base, []byte("\nxref\n")) + 1
	for i := 0; i < n; i++ {
		off := b.Len()
		fmt.Fprintf(b, "5 0 obj\n%s\nendobj\n", stream("", fmt.Sprintf("BT /F1 12 Tf 72 700 Td (rev%d) Tj ET", i)))
		x := b.Len()
		fmt.Fprintf(b, "xref\n5 1\n%010d 00000 n \ntrailer\n<< /Size 6 /Root 1 0 R /Prev %d >>\nstartxref\n%d\n%%%%EOF\n", off, prev, x)
		prev = x
	}
	return b.Bytes()
}

// prevCycle: n incremental updates whose /Prev entries are ten digits wide; afterwards the /Prev of the section
// `from` (0 = oldest update) is pointed at the section `to`: to > from closes a cycle that does not pass through
// the same offset twice in a row (a chain that only remembers the previous offset never notices).
func prevCycle(n, from, to int) []byte {
	base := rawPDF(map[int]string{
		1: "<< /Type /Catalog /Pages 2 0 R >>",
		2: "<< /Type /Pages /Kids [3 0 R] /Count 1 >>",
		3: "<< /Type /Page /Parent 2 0 R /MediaBox [0 0 612 792] /Resources << /Font << /F1 4 0 R >> >> /Contents 5 0 R >>",
		4: helv,
		5: stream("", "BT /F1 12 Tf 72 700 Td (base) Tj ET"),
	}, 1)
	b := bytes.NewBuffer(base)
	prev := bytes.LastIndex(base, []byte("\nxref\n")) + 1
	var xoff, prevPos []int
	for i := 0; i < n; i++ {
		off := b.Len()
		fmt.Fprintf(b, "5 0 obj\n%s\nendobj\n", stream("", fmt.Sprintf("BT /F1 12 Tf 72 700 Td (rev%d) Tj ET", i)))
		x := b.Len()
		fmt.Fprintf(b, "xref\n5 1\n%010d 00000 n \ntrailer\n<< /Size 6 /Root 1 0 R /Prev ", off)
		prevPos = append(prevPos, b.Len())
		fmt.Fprintf(b, "%010d >>\nstartxref\n%d\n%%%%EOF\n", prev, x)
		xoff = append(xoff, x)
		prev = x
	}
	out := b.Bytes()
	copy(out[prevPos[from]:], fmt.Sprintf("%010d", xoff[to]))
	return out
}

func TestAmplificationCatalogue(t *testing.T) {
	n := runCatalogue(t, func(emit emitFn) {
		add := func(name string, build func() []byte) { emit("file", ".pdf", "amplification: "+name, build) }
		for _, g := range [][2]int{{40, 2}, {64, 2}, {14, 8}, {26, 3}} {
			g := g
			for _, leaf := range []bool{true, false} {
				leaf := leaf
				for _, cnt := range []string{"1", "2", "1099511627776"} {
					cnt := cnt
					add(fmt.Sprintf("page tree DAG depth %d fan-out %d leaf page %v /Count %s", g[0], g[1], leaf, cnt), func() []byte { return pageTreeDAG(g[0], g[1], leaf, cnt) })
				}
			}
			for _, inh := range []bool{false, true} {
				inh := inh
				add(fmt.Sprintf("form XObject DAG depth %d fan-out %d (every second form without its own fonts: %v)", g[0], g[1], inh), func() []byte { return formDAG(g[0], g[1], inh) })
			}
			for _, where := range []string{"extgstate", "properties", "fontdict", "annots", "outlines", "names", "metadata", "info"} {
				where := where
				add(fmt.Sprintf("array/dictionary DAG depth %d fan-out %d below %s", g[0], g[1], where), func() []byte { return resolveDAG(g[0], g[1], where) })
			}
		}
		// a lot of text: one very long string, very many short strings on one line, very many lines
		bigPage := func(content string) []byte {
			return rawPDF(map[int]string{
				1: "<< /Type /Catalog /Pages 2 0 R >>", 2: "<< /Type /Pages /Kids [3 0 R] /Count 1 >>",
				3: "<< /Type /Page /Parent 2 0 R /MediaBox [0 0 612 792] /Resources << /Font << /F1 4 0 R >> >> /Contents 5 0 R >>",
				4: helv, 5: stream("", content)}, 1)
		}
		add("one Tj string of 600 KB", func() []byte {
			return bigPage("BT /F1 12 Tf 72 700 Td (" + strings.Repeat("lorem ", 100000) + ") Tj ET")
		})
		// (line assembly is quadratic in the number of fragments of ONE line: 30 000 one-letter strings on a line cost
		// 1.5-4.5 s per operation, measured; pages do not have such lines and the case would only test the ceiling)
		add("8 000 one-letter Tj on one line", func() []byte { return bigPage("BT /F1 12 Tf 72 700 Td " + strings.Repeat("(a) Tj ", 8000) + "ET") })
		add("one TJ array of 16 000 elements", func() []byte {
			return bigPage("BT /F1 12 Tf 72 700 Td [" + strings.Repeat("(ab) -20 ", 8000) + "] TJ ET")
		})
		add("20 000 lines of text", func() []byte {
			var sb strings.Builder
			sb.WriteString("BT /F1 1 Tf 1 0 0 1 72 790 Tm 0.03 TL ")
			for i := 0; i < 20000; i++ {
				fmt.Fprintf(&sb, "(line%d) Tj T* ", i)
			}
			sb.WriteString("ET")
			return bigPage(sb.String())
		})
		add("20 000 text objects at the same place", func() []byte { return bigPage(strings.Repeat("BT /F1 12 Tf 72 700 Td (same) Tj ET ", 20000)) })
		for _, c := range [][3]int{{2, 0, 1}, {3, 0, 2}, {3, 1, 2}, {5, 0, 4}, {5, 2, 3}, {6, 1, 4}, {40, 0, 39}, {40, 17, 30}} {
			c := c
			add(fmt.Sprintf("%d incremental updates, the /Prev of update %d names update %d (a cycle of length %d)", c[0], c[1], c[2], c[2]-c[1]+1), func() []byte { return prevCycle(c[0], c[1], c[2]) })
		}
		for _, k := range []int{2000, 20000} {
			k := k
			add(fmt.Sprintf("page tree chain of depth %d", k), func() []byte { return longPageChain(k) })
			add(fmt.Sprintf("form XObject chain of depth %d", k), func() []byte { return formDAG(k, 1, false) })
			// (20000 updates make a 3.8 MB file that costs ~1 s per operation, linear in its size: with the 22
			// operations of one case that exceeds the CPU ceiling without being a hang, so the chain is 1/4 as long)
			add(fmt.Sprintf("%d incremental updates (/Prev chain)", k/4), func() []byte { return prevChain(k / 4) })
			add(fmt.Sprintf("array chain of depth %d below /ExtGState", k), func() []byte { return resolveDAG(k, 1, "extgstate") })
		}
	})
	if !t.Failed() {
		vr.Exhaustive(fmt.Sprintf("amplification catalogue (page-tree / form / object DAGs, long chains): %d cases", n))
	}
}

// Text-like files and case mapping: format detection and the HTML reader compare upper- or lower-cased copies of
// the leading bytes. Characters whose case mapping has another UTF-8 length (dotless i, long s, Kelvin sign,
// U+023A ...), invalid UTF-8 and byte-order marks are placed at the front, behind the XML declaration, in the
// middle and at the end of small (X)HTML / XML / text files offered under several extensions.
var caseHostile = []string{"\u0131", "\u017f", "\u0130", "\u00df", "\u0149", "\u01f0", "\u023a", "\u023e", "\u2c65", "\u0390", "\ufb01", "\u212a", "\u212b",
	"\u1e9e", "\u0345", "\xc3", "\xed\xa0\x80", "\xf4\x90\x80\x80", "\xef\xbb\xbf", "\xff\xfe", "\x00"}

var textSeeds = []string{
	`<?xml version="1.0" encoding="UTF-8"?><html xmlns="http://www.w3.org/1999/xhtml"><head><title>t</title></head><body><p>x</p></body></html>`,
	`<?xml version="1.0"?><root><item>x</item></root>`,
	`<!DOCTYPE html><html><head><meta charset="utf-8"><title>t</title></head><body><h1>T</h1><p>x</p></body></html>`,
	`<html><body><p>short</p></body></html>`,
	"plain text, no markup at all\n",
	"%PDF-1.4\n",
	"PK\x03\x04",
}

func TestTextDetectionCatalogue(t *testing.T) {
	n := runCatalogue(t, func(emit emitFn) {
		for si, seed := range textSeeds {
			cut := strings.Index(seed, "?>") + 2
			for _, pos := range []int{0, cut, len(seed) / 2, len(seed)} {
				if pos == 1 { // no XML declaration: same as the front
					continue
				}
				for _, h := range caseHostile {
					for _, rep := range []int{1, 40} {
						for _, ext := range []string{".html", ".xhtml", ".pdf", ".docx", ""} {
							seed, pos, h, rep, ext := seed, pos, h, rep, ext
							emit("file", ext, fmt.Sprintf("text-detect: seed %d, %q x %d inserted at %d, extension %q", si, h, rep, pos, ext), func() []byte {
								return splice([]byte(seed), pos, 0, strings.Repeat(h, rep))
							})
						}
					}
				}
			}
		}
	})
	if !t.Failed() {
		vr.Exhaustive(fmt.Sprintf("text-file detection catalogue (case-mapping length changers, invalid UTF-8, BOMs): %d cases", n))
	}
}

// Deep nesting: every opening construct of the raw-bytes parsers repeated far beyond any depth limit, plain and with a
// closed sibling in front of every level ("[[]" - a counter that is decremented once too often per closed sibling
// never reaches its limit), unterminated and terminated.
func TestDeepNestingCatalogue(t *testing.T) {
	type pat struct{ entry, open, close string }
	pats := []pat{
		{"coreparser", "[", "]"}, {"coreparser", "[[]", "]"}, {"coreparser", "<<", ">>"}, {"coreparser", "<</A", ">>"}, {"coreparser", "<</A[]/B", ">>"},
		{"coreparser", "[<<>>", "]"}, {"coreparser", "[<</K", ">>]"}, {"coreparser", "(", ")"},
		{"contentstream", "[", "]"}, {"contentstream", "[[]", "]"}, {"contentstream", "<<", ">>"}, {"contentstream", "<</A", ">>"}, {"contentstream", "[<<>>", "]"},
		{"contentstream", "(", ")"}, {"contentstream", "q ", "Q "}, {"contentstream", "BT ", "ET "}, {"contentstream", "/P <</A", ">> BDC "},
		{"cmap", "[", "]"}, {"cmap", "<<", ">>"}, {"cmap", "1 beginbfrange <00> <01> [", "] endbfrange "},
		{"htmlstring", "<div>", "</div>"}, {"htmlstring", "<ul><li>", "</li></ul>"}, {"htmlstring", "<table><tr><td>", "</td></tr></table>"}, {"htmlstring", "<b>", "</b>"},
	}
	n := runCatalogue(t, func(emit emitFn) {
		for _, p := range pats {
			for _, depth := range []int{600, 20000, 300000} {
				for _, closed := range []bool{false, true} {
					p, depth, closed := p, depth, closed
					emit(p.entry, "", fmt.Sprintf("deep nesting: %q x %d, closed=%v", p.open, depth, closed), func() []byte {
						b := strings.Repeat(p.open, depth)
						if p.entry == "coreparser" {
							b = "1 0 obj\n" + b
						}
						if closed {
							b += " 1 " + strings.Repeat(p.close, depth)
						}
						return []byte(b)
					})
				}
			}
		}
	})
	if !t.Failed() {
		vr.Exhaustive(fmt.Sprintf("deep-nesting catalogue (%d opening constructs x 3 depths x closed/unclosed): %d cases", len(pats), n))
	}
}

// Operand values: the numbers of a page's content stream (positions, matrices, font sizes, leading, spacing, scaling,
// TJ adjustments, rectangles) and of the boxes and width tables around it replaced one at a time, and two at a
// time for the pairs that belong to one operator, by zero, negative, tiny, 2^31, 2^63-1 and numbers beyond every
// integer type. The object-level fault catalogue never reaches these numbers (they live inside the stream data), and the
// raw content-stream entry point stops at the fragments: what is judged here is everything the public calls build
// on top of far-away, enormous or degenerate fragments (line and paragraph assembly, column histograms, the
// space padding of PreserveLayout, header/footer bands, Markdown, chunking).
var operandValues = []string{"0", "-1", "0.000001", "-0.000001", "2147483648", "-2147483649", "1000000000000", "-1000000000000",
	"9223372036854775807", "-9223372036854775808", "99999999999999999999999", "-99999999999999999999999", "0.00000000000000000001"}

const operandTemplate = "q 1 0 0 1 0 0 cm BT /F1 12 Tf 14 TL 72 700 Td (Left column first line) Tj T* (left column second line) Tj " +
	"1 0 0 1 320 700 Tm (Right column first line) Tj 0 -14 TD (right column second) Tj 0.5 Tc 2 Tw 100 Tz 3 Ts " +
	"[(ker) -250 (ned) 120 (text)] TJ 0 -28 Td (after) ' 1 2 (quoted) \" ET Q " +
	"q 0.5 0 0 0.5 10 10 cm BT /F1 8 Tf 1 0 0 1 72 60 Tm (footer 1) Tj ET Q 72 500 200 100 re S 2 w 72 400 m 300 400 l S"

func operandPDF(content, mediaBox, widths string) []byte {
	font := helv
	if widths != "" {
		font = "<< /Type /Font /Subtype /Type1 /BaseFont /Helvetica /FirstChar 32 /LastChar 36 /Widths [" + widths + "] >>"
	}
	return rawPDF(map[int]string{
		1: "<< /Type /Catalog /Pages 2 0 R >>", 2: "<< /Type /Pages /Kids [3 0 R 6 0 R] /Count 2 >>",
		3: "<< /Type /Page /Parent 2 0 R /MediaBox [" + mediaBox + "] /Resources << /Font << /F1 4 0 R >> >> /Contents 5 0 R >>",
		4: font, 5: stream("", content),
		6: "<< /Type /Page /Parent 2 0 R /MediaBox [0 0 612 792] /Resources << /Font << /F1 4 0 R >> >> /Contents 7 0 R >>",
		7: stream("", "BT /F1 12 Tf 72 700 Td (second page) Tj 1 0 0 1 72 60 Tm (footer 2) Tj ET")}, 1)
}

func isNumberToken(s string) bool {
	if s == "" {
		return false
	}
	for _, r := range s {
		if !(r >= '0' && r <= '9' || r == '.' || r == '-') {
			return false
		}
	}
	return true
}

func TestOperandCatalogue(t *testing.T) {
	n := runCatalogue(t, func(emit emitFn) {
		fields := strings.Fields(operandTemplate)
		var nums []int
		for i, f := range fields {
			if isNumberToken(f) {
				nums = append(nums, i)
			}
		}
		with := func(repl map[int]string) string {
			out := append([]string{}, fields...)
			for i, v := range repl {
				out[i] = v
			}
			return strings.Join(out, " ")
		}
		for _, i := range nums {
			for _, v := range operandValues {
				i, v := i, v
				emit("file", ".pdf", fmt.Sprintf("operand: content-stream number %d (%s before %q) := %s", i, fields[i], nextOperator(fields, i), v), func() []byte {
					return operandPDF(with(map[int]string{i: v}), "0 0 612 792", "")
				})
			}
		}
		// two neighbouring numbers (both operands of one operator, or the last of one and the first of the next)
		for k := 0; k+1 < len(nums); k++ {
			if nums[k+1]-nums[k] > 2 {
				continue
			}
			for _, v := range []string{"0", "-1000000000000", "1000000000000", "9223372036854775807", "0.000001"} {
				for _, w := range []string{"0", "1000000000000", "-9223372036854775808", "0.000001"} {
					a, b, v, w := nums[k], nums[k+1], v, w
					emit("file", ".pdf", fmt.Sprintf("operand: content-stream numbers %d,%d := %s,%s", a, b, v, w), func() []byte {
						return operandPDF(with(map[int]string{a: v, b: w}), "0 0 612 792", "")
					})
				}
			}
		}
		box := []string{"0", "0", "612", "792"}
		for i := range box {
			for _, v := range operandValues {
				i, v := i, v
				emit("file", ".pdf", fmt.Sprintf("operand: /MediaBox element %d := %s", i, v), func() []byte {
					b := append([]string{}, box...)
					b[i] = v
					return operandPDF(operandTemplate, strings.Join(b, " "), "")
				})
			}
		}
		for _, v := range operandValues {
			v := v
			emit("file", ".pdf", "operand: every /Widths element := "+v, func() []byte {
				return operandPDF(operandTemplate, "0 0 612 792", strings.TrimSpace(strings.Repeat(v+" ", 5)))
			})
			emit("file", ".pdf", "operand: every coordinate of the page scaled by cm "+v, func() []byte {
				return operandPDF(v+" 0 0 "+v+" 0 0 cm "+operandTemplate, "0 0 612 792", "")
			})
		}
	})
	if !t.Failed() {
		vr.Exhaustive(fmt.Sprintf("operand catalogue (every number of a page's content stream, its /MediaBox and /Widths replaced by extreme values): %d cases", n))
	}
}

func nextOperator(fields []string, i int) string {
	for j := i + 1; j < len(fields); j++ {
		f := fields[j]
		if !isNumberToken(f) && !strings.HasPrefix(f, "(") && !strings.HasPrefix(f, "/") && !strings.HasPrefix(f, "[") && !strings.HasSuffix(f, ")") && !strings.HasSuffix(f, "]") {
			return f
		}
	}
	return ""
}

// HTML nesting: the tree builder of golang.org/x/net/html is quadratic in the number of open elements, and the
// reader refuses documents that would nest too deeply before it parses them. The refusal rests on a forecast of what
// the parser will open and close, so the inputs here are the ones a forecast gets wrong: end tags that match nothing
// or are ignored, self-closing syntax on elements that are not void, elements that are closed by implication in
// one context and nest in another (optgroup, rt, li/dd), formatting elements that the parser opens again in every
// following block, content the parser ignores (inside select, frameset, a template of columns), SVG and MathML
// content. Fixed shapes repeated 20 000 times, and generated tag soups (a unit of 1-7 tags repeated 20 000 times).
var htmlNestingShapes = []string{
	"<div></x>", "<ul><li></x>", "<div></p>", "<b></i>", "<div/>", "<span/>", "<custom-el/>", "<optgroup>", "<option><optgroup>", "<rt>", "<rb>", "<rtc><rp>",
	"<span><li></span><span><dd></span>", "<span><div></span>", "<b><div></b>", "<a><div></a>", "<div><b a=#>x</div>", "<p><i a=#>x", "<td><font color=#>x</td>",
	"<button><tt a=#>", "<big a=#><a>", "<nobr a=#><div></nobr>", "<select><div><input><span></div>", "<select><table><input><span></table>", "<select><style><input><div></style>",
	"<frameset>", "<frameset><div>", "</div><div><frameset>", "<svg><title><div>", "<svg><foreignObject><div/>", "<svg><desc/>", "<math><mi><div>", "<math><annotation-xml><td>",
	"<svg><tr><desc><table>", "<math><br><desc/>", "<p><math></p><ruby>", "<table><div></td>", "<table><pre></td><select>", "<table><caption><th><s>",
	"<template><td><nav/><col>", "<template><col><math><template>", "<template></template><s a=#><dd>", "<form><div></form>", "<table><form><tr><td><span></form>",
	"<h1><h2>", "<li><blockquote>", "<dd><dl>", "<object><div></div>", "<applet><b a=#></applet>", "<marquee><p>", "<![CDATA[><svg><![CDATA[><g>", "<svg><a><foreignObject></a><noembed>",
	"<u><ruby><li>", "<center><font size=#>x</center>", "<table><tbody><tt a=#><caption>", "<i></blockquote></br><blockquote>", "<plaintext>", "<textarea><div>", "<xmp></div><div>",
}

var htmlPairNames = strings.Fields("li dd dt p div span b a nobr ul ol dl table td tr caption button select option optgroup h1 form svg math template object pre blockquote rt ruby x")

func htmlNestingDoc(pre, unit string, reps int) []byte {
	var sb strings.Builder
	sb.WriteString(pre)
	for i := 0; i < reps; i++ {
		sb.WriteString(strings.ReplaceAll(unit, "#", fmt.Sprint(i)))
	}
	return []byte(sb.String())
}

func TestHTMLNestingCatalogue(t *testing.T) {
	n := runCatalogue(t, func(emit emitFn) {
		for _, u := range htmlNestingShapes {
			for _, pre := range []string{"", "<!DOCTYPE html><body>text", "<table><tr><td>", "<svg><foreignObject>", "<select>"} {
				u, pre := u, pre
				emit("htmlstring", "", fmt.Sprintf("html nesting: %q, then %q x 20000", pre, u), func() []byte { return htmlNestingDoc(pre, u, 20000) })
			}
			u := u
			emit("file", ".html", fmt.Sprintf("html nesting: file of %q x 20000", u), func() []byte { return htmlNestingDoc("", u, 20000) })
		}
		// every pair: B opened inside A, then A's end tag (which the parser obeys, ignores, or answers by
		// re-opening elements, depending on the two)
		for _, a := range htmlPairNames {
			for _, b := range htmlPairNames {
				u := "<" + a + "><" + b + "></" + a + ">"
				emit("htmlstring", "", fmt.Sprintf("html nesting: %q x 20000", u), func() []byte { return htmlNestingDoc("", u, 20000) })
			}
		}
	})
	if !t.Failed() {
		vr.Exhaustive(fmt.Sprintf("HTML nesting catalogue (%d shapes x 5 contexts + file, %d x %d pairs <A><B></A>): %d cases", len(htmlNestingShapes), len(htmlPairNames), len(htmlPairNames), n))
	}
}

var htmlSoupNames = strings.Fields("div span p b i a font ul ol li dl dd dt table tr td th tbody caption select option optgroup input textarea button form h1 h2 " +
	"svg math foreignObject desc title mi mtext annotation-xml g path object applet marquee template x custom-el pre blockquote nobr " +
	"style script noscript iframe frameset body html head br hr img section nav center code em strong u s small big tt strike label fieldset details summary " +
	"main article aside header footer address ruby rt rp rb rtc xmp listing noembed noframes col colgroup thead tfoot keygen mglyph malignmark image")

func genHTMLSoup(t *rapid.T) Case {
	tok := func(label string) string {
		n := rapid.SampledFrom(htmlSoupNames).Draw(t, label)
		switch rapid.IntRange(0, 11).Draw(t, label+"kind") {
		case 0, 1, 2, 3, 4:
			attr := ""
			switch rapid.IntRange(0, 5).Draw(t, label+"attr") {
			case 0:
				attr = " a=#"
			case 1:
				attr = " a=1"
			}
			if n == "font" && rapid.Bool().Draw(t, label+"fa") {
				attr += " size=2"
			}
			if n == "annotation-xml" && rapid.Bool().Draw(t, label+"enc") {
				attr += " encoding='text/html'"
			}
			return "<" + n + attr + ">"
		case 5, 6, 7:
			return "</" + n + ">"
		case 8:
			return "<" + n + "/>"
		case 9:
			return rapid.SampledFrom([]string{"x", " ", "text", "<![CDATA[>", "]]>", "<!--", "-->", "<!-- c -->"}).Draw(t, label+"misc")
		}
		return "<" + n + ">"
	}
	var pre, unit strings.Builder
	for i, k := 0, rapid.IntRange(0, 5).Draw(t, "nPre"); i < k; i++ {
		pre.WriteString(tok(fmt.Sprintf("pre%d", i)))
	}
	for i, k := 0, rapid.IntRange(1, 7).Draw(t, "nUnit"); i < k; i++ {
		unit.WriteString(tok(fmt.Sprintf("unit%d", i)))
	}
	return Case{Entry: "htmlstring", Fault: fmt.Sprintf("html soup: %q, then %q x 20000", pre.String(), unit.String()),
		Payload: htmlNestingDoc(pre.String(), unit.String(), 20000)}
}

func TestHTMLSoup(t *testing.T) {
	vr.Prop(t, "robust", vr.N(160, 4000), genHTMLSoup, meta, checkCase)
}
