// C02 — No input can crash, hang or exhaust the process.
//
// Three layers: (1) exhaustive application of a structural fault catalogue to
// small valid documents (PDF through the writer's token map; ZIP formats
// through member-level and XML-level faults), (2) rapid-driven byte mutation
// and double faults, (3) coverage-guided native fuzzing (thorough tier, see
// fuzz_test.go). Every case runs in an isolated worker process (package iso);
// the oracle is the worker's verdict: value or error within the CPU and memory
// budget — never panic, abort or hang.
package c02

import (
	"archive/zip"
	"bytes"
	"crypto/sha1"
	"encoding/json"
	"fmt"
	"io"
	"os"
	"path/filepath"
	"regexp"
	"sort"
	"strconv"
	"strings"
	"sync"
	"testing"

	"github.com/tsawler/tabula"
	"github.com/tsawler/tabula/contentstream"
	"github.com/tsawler/tabula/core"
	"github.com/tsawler/tabula/font"
	"github.com/tsawler/tabula/format"
	"github.com/tsawler/tabula/graphicsstate"
	"github.com/tsawler/tabula/rag"
	"github.com/tsawler/tabula/text"
	"pgregory.net/rapid"

	"verif/harness/gen/pdfw"
	"verif/harness/iso"
	"verif/harness/vr"
)

// ---------------------------------------------------------------------------
// worker entries (run in the child process)

var workDir string

func fileEntry(payload []byte) (string, error) {
	i := bytes.IndexByte(payload, 0)
	if i < 0 {
		return "", fmt.Errorf("bad payload")
	}
	ext, data := string(payload[:i]), payload[i+1:]
	if workDir == "" {
		d, err := os.MkdirTemp("", "verif-c02w-")
		if err != nil {
			return "", err
		}
		workDir = d
	}
	path := filepath.Join(workDir, "in"+ext)
	if err := os.WriteFile(path, data, 0o644); err != nil {
		return "", err
	}
	defer os.Remove(path)
	// every public entry point; results and errors are not judged
	o := func() *tabula.Extractor { return tabula.Open(path) }
	o().Text()
	o().ToMarkdown()
	o().Chunks()
	o().Document()
	o().Fragments()
	o().Analyze()
	o().Lines()
	o().Paragraphs()
	o().Blocks()
	o().Elements()
	o().Headings()
	o().Lists()
	o().ReadingOrder()
	e := o()
	e.PageCount()
	e.IsCharacterLevel()
	e.IsMultiColumn()
	e.Close()
	o().ByColumn().Text()
	o().JoinParagraphs().Text()
	o().PreserveLayout().Text()
	o().ExcludeHeadersAndFooters().Text()
	o().Pages(1).Text()
	// the Markdown options, at both ends of their ranges
	o().ToMarkdownWithOptions(rag.MarkdownOptions{IncludeMetadata: true, IncludeTableOfContents: true, HeadingLevelOffset: -3, MaxHeadingLevel: 1})
	o().ToMarkdownWithOptions(rag.MarkdownOptions{IncludeTableOfContents: true, HeadingLevelOffset: 7, MaxHeadingLevel: 6, IncludePageNumbers: true, IncludeChunkSeparators: true, IncludeChunkIDs: true})
	format.DetectFromMagic(data)
	format.DetectFromReader(bytes.NewReader(data), int64(len(data)))
	return "", nil
}

func htmlStringEntry(payload []byte) (string, error) {
	s := string(payload)
	tabula.FromHTMLString(s).Text()
	tabula.FromHTMLString(s).ToMarkdown()
	tabula.FromHTMLString(s).Document()
	tabula.FromHTMLString(s).Chunks()
	return "", nil
}

func coreParserEntry(payload []byte) (string, error) {
	p := core.NewParser(bytes.NewReader(payload))
	for i := 0; i < 1<<20; i++ {
		if _, err := p.ParseObject(); err != nil {
			break
		}
	}
	core.NewParser(bytes.NewReader(payload)).ParseIndirectObject()
	xp := core.NewXRefParser(bytes.NewReader(payload))
	xp.ParseXRefFromEOF()
	core.NewXRefParser(bytes.NewReader(payload)).ParseAllXRefs()
	core.NewXRefParser(bytes.NewReader(payload)).ParseXRef(0)
	return "", nil
}

func contentStreamEntry(payload []byte) (string, error) {
	contentstream.NewParser(payload).Parse()
	text.NewExtractor().ExtractFromBytes(payload)
	graphicsstate.NewGraphicsExtractor().ExtractFromBytes(payload)
	return "", nil
}

func cmapEntry(payload []byte) (string, error) {
	cm, err := font.ParseToUnicodeCMap(&core.Stream{Dict: core.Dict{}, Data: payload})
	if err == nil && cm != nil {
		cm.LookupString([]byte{0, 1, 2, 3, 0x41, 0x42, 0xFF, 0xFE, 0x80})
		cm.Lookup(0x41)
	}
	f := font.NewFont("F1", "Helvetica", "Type1")
	f.DecodeString(payload)
	font.DecodeUTF16BE(payload)
	font.DecodeUTF16LE(payload)
	for _, n := range []string{"WinAnsiEncoding", "MacRomanEncoding", "StandardEncoding", "PDFDocEncoding", "Symbol", "ZapfDingbats"} {
		font.GetEncoding(n).DecodeString(payload)
	}
	return "", nil
}

// streamDecodeEntry: payload = dictionary text, NUL, stream data.
func streamDecodeEntry(payload []byte) (string, error) {
	i := bytes.IndexByte(payload, 0)
	if i < 0 {
		return "", nil
	}
	obj, err := core.NewParser(bytes.NewReader(payload[:i])).ParseObject()
	if err != nil {
		return "", nil
	}
	d, ok := obj.(core.Dict)
	if !ok {
		return "", nil
	}
	st := &core.Stream{Dict: d, Data: payload[i+1:]}
	st.Decode()
	if os2, err := core.NewObjectStream(st); err == nil {
		os2.GetObjectByIndex(0)
		os2.ObjectNumbers()
	}
	return "", nil
}

var entries = map[string]iso.Entry{
	"file":          fileEntry,
	"htmlstring":    htmlStringEntry,
	"coreparser":    coreParserEntry,
	"contentstream": contentStreamEntry,
	"cmap":          cmapEntry,
	"streamdecode":  streamDecodeEntry,
}

func TestMain(m *testing.M) {
	if iso.IsWorker() {
		iso.WorkerMain(entries)
	}
	if spec := os.Getenv("VERIF_FUZZ_TO_REPLAY"); spec != "" {
		os.Exit(fuzzToReplay(spec))
	}
	vr.Main(m)
}

// fuzzToReplay converts a crasher written by the native fuzzer ("go test fuzz v1" corpus file with one
// []byte argument) into an ordinary replay file. spec = corpusfile;entry;ext;target;outfile
func fuzzToReplay(spec string) int {
	f := strings.Split(spec, ";")
	if len(f) != 5 {
		return 3
	}
	b, err := os.ReadFile(f[0])
	if err != nil {
		fmt.Println("INFRA:", err)
		return 3
	}
	lines := strings.SplitN(string(b), "\n", 3)
	if len(lines) < 2 || !strings.HasPrefix(lines[1], "[]byte(") {
		fmt.Println("INFRA: unexpected corpus file format")
		return 3
	}
	q := strings.TrimSuffix(strings.TrimPrefix(strings.TrimSpace(lines[1]), "[]byte("), ")")
	payload, err := strconv.Unquote(q)
	if err != nil {
		fmt.Println("INFRA: cannot unquote corpus entry:", err)
		return 3
	}
	c := Case{Entry: f[1], Ext: f[2], Fault: "found by native fuzzing (" + f[3] + ")", Payload: []byte(payload)}
	raw, _ := json.MarshalIndent(c, "", " ")
	rf := vr.ReplayFile{Property: "C02", Check: "robust", Error: "crasher reported by go test -fuzz=" + f[3], Case: raw}
	out, _ := json.MarshalIndent(rf, "", " ")
	if err := os.WriteFile(f[4], out, 0o644); err != nil {
		return 3
	}
	return 0
}

// ---------------------------------------------------------------------------
// parent side

type Case struct {
	Entry   string `json:"entry"`
	Ext     string `json:"ext,omitempty"`
	Fault   string `json:"fault"` // description of how the input was derived
	Payload []byte `json:"payload"`
}

var (
	poolOnce sync.Once
	pool     *iso.Pool
	poolErr  error
)

func getPool() (*iso.Pool, error) {
	poolOnce.Do(func() {
		n := 4
		if v := os.Getenv("VERIF_WORKERS"); v != "" {
			fmt.Sscan(v, &n)
		}
		pool, poolErr = iso.NewPool(os.Args[0], n)
	})
	return pool, poolErr
}

func (c Case) payload() []byte {
	if c.Entry == "file" {
		return append(append([]byte(c.Ext), 0), c.Payload...)
	}
	return c.Payload
}

func checkCase(c Case) error {
	p, err := getPool()
	if err != nil {
		return fmt.Errorf("INFRA: worker pool: %v", err)
	}
	v := p.Run(c.Entry, c.payload())
	if v.Kind == "infra" {
		return fmt.Errorf("INFRA: %s", v.Msg)
	}
	if v.Bad() {
		if os.Getenv("VERIF_C02_COLLECT") != "" { // development aid: list every signature instead of stopping at the first
			vr.Label("BAD " + v.Signature() + " :: " + v.Msg)
			return nil
		}
		if vr.Off(v.Signature()) {
			vr.Label("skipped-known:" + v.Signature())
			return nil
		}
		return fmt.Errorf("%s in %s (%s) on input derived by: %s", v.Kind, v.Site, v.Msg, c.Fault)
	}
	return nil
}

func init() { vr.Register("robust", checkCase) }

func meta(c Case) vr.Meta {
	h := fmt.Sprintf("%s|%s|%d|%x", c.Entry, c.Ext, len(c.Payload), sha1.Sum(c.Payload))
	lab := c.Fault
	if i := strings.IndexAny(lab, " :("); i > 0 {
		lab = lab[:i]
	}
	return vr.Meta{FP: h, NonTrivial: true, Labels: []string{"entry:" + c.Entry + c.Ext, "fault:" + lab}}
}

// emitFn receives one catalogue entry; build materialises the faulty bytes only when the case is
// actually run by this shard (the catalogue of a 1 MB sample document would not fit in memory otherwise).
type emitFn func(entry, ext, fault string, build func() []byte)

// runCatalogue streams the catalogue produced by gen through the worker pool and returns its size.
func runCatalogue(t *testing.T, gen func(emit emitFn)) int {
	t.Helper()
	if _, err := getPool(); err != nil {
		t.Fatalf("INFRA: %v", err)
	}
	sem := make(chan struct{}, 4)
	var mu sync.Mutex
	failed := 0
	var wg sync.WaitGroup
	idx := 0
	gen(func(entry, ext, fault string, build func() []byte) {
		i := idx
		idx++
		if !vr.Mine(i) {
			return
		}
		mu.Lock()
		stop := failed >= 3
		mu.Unlock()
		if stop {
			return
		}
		c := Case{Entry: entry, Ext: ext, Fault: fault, Payload: build()}
		wg.Add(1)
		sem <- struct{}{}
		go func() {
			defer wg.Done()
			defer func() { <-sem }()
			if !vr.One(t, "robust", c, meta(c), checkCase) {
				mu.Lock()
				failed++
				mu.Unlock()
			}
		}()
	})
	wg.Wait()
	return idx
}

// ---------------------------------------------------------------------------
// base documents

type basePDF struct {
	name  string
	res   pdfw.Result
	bytes []byte
	docs  []pdfw.Doc
	l     pdfw.Layout
}

func basePDFs() []basePDF {
	fonts := []pdfw.FontSpec{
		{Res: "F1", Kind: "t1win", Base: "Helvetica"},
		{Res: "F2", Kind: "type0", Base: "ABCDEF+NotoSans", Map: []pdfw.MapEnt{{Code: 1, Text: "A"}, {Code: 2, Text: "é"}, {Code: 0x1234, Text: "\U0001F600"}}},
		{Res: "F3", Kind: "tu1", Base: "Arial", Map: []pdfw.MapEnt{{Code: 0x41, Text: "Z"}, {Code: 0x42, Text: "ffi"}}},
		{Res: "F4", Kind: "ttembed", Base: "ABCDEF+Verdana"},
	}
	page := func(id int) pdfw.Page {
		return pdfw.Page{ID: id, MediaBox: [4]float64{0, 0, 612, 792}, Lines: []pdfw.Line{
			{Font: 0, Size: 12, X: 72, Y: 700, Bytes: []byte("Hello (page) " + fmt.Sprint(id)), Text: "Hello (page) " + fmt.Sprint(id)},
			{Font: 1, Size: 10, X: 72, Y: 650, Bytes: []byte{0, 1, 0, 2, 0x12, 0x34}, Hex: true, Text: "Aé\U0001F600"},
			{Font: 2, Size: 10, X: 72, Y: 600, Bytes: []byte("AB"), Text: "Zffi"},
			{Font: 3, Size: 10, X: 72, Y: 550, Bytes: []byte("embedded"), Text: "embedded"},
		}}
	}
	d0 := pdfw.Doc{Fonts: fonts, Pages: []pdfw.Page{page(1), page(2)}}
	d1 := pdfw.Doc{Fonts: fonts, Pages: []pdfw.Page{page(1), page(3), page(2)}}
	layouts := []struct {
		name string
		docs []pdfw.Doc
		l    pdfw.Layout
	}{
		{"plain", []pdfw.Doc{d0}, pdfw.Layout{Depth: 2, FanOut: 2, BoxLevel: 1, ResLevel: 2}},
		{"modern", []pdfw.Doc{d0, d1}, pdfw.Layout{XRef: []string{"stream", "stream"}, ObjStm: true, ObjStmCount: 2, ObjStmExtends: true,
			Length: "after", Split: 2, ContentsIndirect: true, Depth: 2, FanOut: 2, ResLevel: 1, ResIndirect: true, FontDictInd: true, FreeDeleted: true}},
		{"filtered", []pdfw.Doc{d0, d1}, pdfw.Layout{XRef: []string{"table", "stream"}, XRefFlate: true, XRefPredictor: true, ObjStm: true, ObjStmFlate: true,
			Filters: [][]string{{"FlateDecode"}, {"ASCII85Decode", "FlateDecode"}, {"ASCIIHexDecode"}}, Predictor: true, PredColors: 3, ToUniFlate: true,
			Length: "before", LengthInObjStm: true, Depth: 3, FanOut: 1, BoxLevel: 3, RotLevel: 2}},
	}
	// the same filtered layout with the TIFF predictor (a single revision keeps the catalogue small)
	tiff := layouts[2].l
	tiff.TIFFPred = true
	tiff.XRef = []string{"table"}
	layouts = append(layouts, struct {
		name string
		docs []pdfw.Doc
		l    pdfw.Layout
	}{"tiff-predictor", []pdfw.Doc{d0}, tiff})
	var out []basePDF
	for _, l := range layouts {
		r := pdfw.Write(l.docs, l.l)
		out = append(out, basePDF{l.name, r, r.Bytes, l.docs, l.l})
	}
	return out
}

// isDictValue reports whether the token in front of off is a name: the integer at off is a dictionary value
// (/Columns 8), not an element of a long array such as /Widths.
func isDictValue(b []byte, off int) bool {
	i := off - 1
	for i >= 0 && (b[i] == ' ' || b[i] == '\n' || b[i] == '\r' || b[i] == '\t') {
		i--
	}
	for i >= 0 && b[i] != ' ' && b[i] != '\n' && b[i] != '\r' && b[i] != '\t' && b[i] != '<' && b[i] != '[' && b[i] != '>' && b[i] != ']' {
		if b[i] == '/' {
			return true
		}
		i--
	}
	return false
}

func splice(b []byte, off, n int, repl string) []byte {
	out := make([]byte, 0, len(b)+len(repl))
	out = append(out, b[:off]...)
	out = append(out, repl...)
	return append(out, b[off+n:]...)
}

var hostileInts = []string{"0", "-1", "2147483648", "9223372036854775807"}

// pdfFaults enumerates the single-fault catalogue for one written PDF.
func pdfFaults(name string, r pdfw.Result, emit emitFn) {
	b := r.Bytes
	addf := func(fault string, build func() []byte) {
		emit("file", ".pdf", fault+" ["+name+"]", build)
	}
	// the PDFs are small: building eagerly is fine here
	add := func(fault string, data []byte) { addf(fault, func() []byte { return data }) }
	// object numbers present
	maxNum := 0
	for _, ng := range r.ObjNum {
		if ng[0] > maxNum {
			maxNum = ng[0]
		}
	}
	var heads []pdfw.Mark
	for _, m := range r.Marks {
		if m.Role == "objhead" {
			heads = append(heads, m)
		}
	}
	for _, m := range r.Marks {
		old := string(b[m.Off : m.Off+m.Len])
		// truncate at every token boundary
		add(fmt.Sprintf("truncate at %d (before %s %q)", m.Off, m.Role, clipS(old)), b[:m.Off])
		switch m.Role {
		case "int", "startxref":
			for _, h := range hostileInts {
				add(fmt.Sprintf("int %q at %d := %s", old, m.Off, h), splice(b, m.Off, m.Len, h))
			}
			// neighbouring values of the same length (the file stays consistent, every offset valid): a count,
			// width or size that is off by one or simply another small number - /Columns 8 -> 7, /N 3 -> 4
			if v, err := strconv.Atoi(old); err == nil && m.Role == "int" && isDictValue(b, m.Off) {
				cand := []int{v - 1, v + 1}
				if m.Len == 1 {
					cand = []int{0, 1, 2, 3, 4, 5, 6, 7, 8, 9}
				}
				for _, c := range cand {
					if h := strconv.Itoa(c); c != v && len(h) == m.Len {
						add(fmt.Sprintf("int %q at %d := %s (same length)", old, m.Off, h), splice(b, m.Off, m.Len, h))
					}
				}
			}
			// a direct stream length (or object-stream / xref-stream field) turned into a reference to every object:
			// cycles through the machinery that resolves lengths while an object is being loaded
			if m.Role == "int" && m.Off >= 9 {
				pre := string(b[m.Off-9 : m.Off])
				for _, key := range []string{"/Length ", "/First ", "/N ", "/Size ", "/Prev ", "/Count "} {
					if strings.HasSuffix(pre, key) {
						for k := 0; k <= maxNum+1; k++ {
							add(fmt.Sprintf("%sint %q at %d := %d 0 R", key, old, m.Off, k), splice(b, m.Off, m.Len, fmt.Sprintf("%d 0 R", k)))
						}
					}
				}
			}
		case "ref":
			for k := 0; k <= maxNum+1; k++ {
				add(fmt.Sprintf("ref %q at %d := %d 0 R", old, m.Off, k), splice(b, m.Off, m.Len, fmt.Sprintf("%d 0 R", k)))
			}
		case "delim":
			add(fmt.Sprintf("delete delimiter %q at %d", old, m.Off), splice(b, m.Off, m.Len, ""))
			add(fmt.Sprintf("duplicate delimiter %q at %d", old, m.Off), splice(b, m.Off, m.Len, old+old))
		case "streamdata":
			if m.Len > 0 {
				half := splice(b, m.Off+m.Len/2, m.Len-m.Len/2, "")
				add(fmt.Sprintf("stream data at %d cut to half", m.Off), half)
				flip := append([]byte(nil), b...)
				flip[m.Off+m.Len/3] ^= 0xFF
				add(fmt.Sprintf("stream data at %d: byte flipped", m.Off), flip)
				zero := append([]byte(nil), b...)
				for i := m.Off; i < m.Off+m.Len; i++ {
					zero[i] = 0
				}
				add(fmt.Sprintf("stream data at %d zeroed", m.Off), zero)
				ff := append([]byte(nil), b...)
				for i := m.Off; i < m.Off+m.Len; i++ {
					ff[i] = 0xFF
				}
				add(fmt.Sprintf("stream data at %d set to FF", m.Off), ff)
			}
		case "objhead":
			// drop / duplicate the whole object (up to the next object head or the xref)
			end := bytes.Index(b[m.Off:], []byte("endobj"))
			if end > 0 {
				end += m.Off + len("endobj")
				add(fmt.Sprintf("drop object %q", old), splice(b, m.Off, end-m.Off, ""))
				add(fmt.Sprintf("duplicate object %q", old), splice(b, m.Off, 0, string(b[m.Off:end])+"\n"))
			}
			for _, h := range hostileInts {
				add(fmt.Sprintf("object head %q: number := %s", old, h), splice(b, m.Off, strings.Index(old, " "), h))
			}
		case "xrefentry":
			for _, v := range []string{"0000000000", "9999999999", fmt.Sprintf("%010d", len(b)), fmt.Sprintf("%010d", len(b)-1)} {
				add(fmt.Sprintf("xref entry %q offset := %s", old, v), splice(b, m.Off, 10, v))
			}
			for _, h := range heads {
				add(fmt.Sprintf("xref entry %q -> offset of %q", old, string(b[h.Off:h.Off+h.Len])), splice(b, m.Off, 10, fmt.Sprintf("%010d", h.Off)))
			}
			add(fmt.Sprintf("xref entry %q flag flipped", old), splice(b, m.Off+17, 1, map[byte]string{'n': "f", 'f': "n"}[b[m.Off+17]]))
			// every byte of the 20-byte entry := a blank (an entry that is shorter once its white space is
			// trimmed, shifted fields, a missing flag), a digit, a letter
			for k := 0; k < 20 && m.Off+k < len(b); k++ {
				for _, c := range []string{" ", "7", "x"} {
					if string(b[m.Off+k]) != c {
						add(fmt.Sprintf("xref entry %q byte %d := %q", old, k, c), splice(b, m.Off+k, 1, c))
					}
				}
			}
		}
	}
}

// pdfFaultsConsistent applies the same catalogue to single objects and lets the writer lay the file out again,
// so that the fault is the only thing wrong: every cross-reference offset, /Length of other streams and
// object-stream offset stays right and the damaged object is actually reached.
func pdfFaultsConsistent(bp basePDF, emit emitFn) {
	maxNum := 0
	for _, ng := range bp.res.ObjNum {
		if ng[0] > maxNum {
			maxNum = ng[0]
		}
	}
	ids := make([]string, 0, len(bp.res.ObjMarks))
	for id := range bp.res.ObjMarks {
		ids = append(ids, id)
	}
	sort.Strings(ids)
	// serialised bodies are needed to show the old text and to look at the preceding key
	for _, id := range ids {
		for _, m := range bp.res.ObjMarks[id] {
			id, m := id, m
			add := func(fault, repl string, off, n int) {
				emit("file", ".pdf", fmt.Sprintf("consistent: object %s %s at +%d: %s [%s]", id, m.Role, m.Off, fault, bp.name), func() []byte {
					l2 := bp.l
					l2.Patches = []pdfw.Patch{{ID: id, Off: off, Len: n, New: repl}}
					return pdfw.Write(bp.docs, l2).Bytes
				})
			}
			switch m.Role {
			case "int":
				for _, h := range hostileInts {
					add(":= "+h, h, m.Off, m.Len)
				}
				for k := 0; k <= maxNum+1; k++ {
					add(fmt.Sprintf(":= %d 0 R", k), fmt.Sprintf("%d 0 R", k), m.Off, m.Len)
				}
			case "ref":
				for k := 0; k <= maxNum+1; k++ {
					add(fmt.Sprintf(":= %d 0 R", k), fmt.Sprintf("%d 0 R", k), m.Off, m.Len)
				}
				add(":= null", "null", m.Off, m.Len)
				add(":= 7", "7", m.Off, m.Len)
			case "delim":
				add("deleted", "", m.Off, m.Len)
			case "streamdata":
				if strings.HasPrefix(id, "fontfile:") && m.Len > 12 {
					// binary fields of the embedded font program's table directory (the stream is unfiltered)
					font := pdfw.MinimalTTF(96)
					f32, nt := pdfw.TTFDirectoryFields(font)
					be := func(v uint32) string { return string([]byte{byte(v >> 24), byte(v >> 16), byte(v >> 8), byte(v)}) }
					for _, f := range f32 {
						for _, v := range []uint32{0xFFFFFFFF, 0x80000000, 0x7FFFFFFF, uint32(len(font)), uint32(len(font) - 1), 0, 0xFFFFFFF0} {
							add(fmt.Sprintf("font directory field at %d := %#x", f, v), be(v), m.Off+f, 4)
						}
					}
					add("font table count := 65535", "\xff\xff", m.Off+nt, 2)
					add("font table count := 0", "\x00\x00", m.Off+nt, 2)
				}
				if m.Len > 0 {
					add("cut to half", "", m.Off+m.Len/2, m.Len-m.Len/2)
					add("zeroed", strings.Repeat("\x00", m.Len), m.Off, m.Len)
					add("set to FF", strings.Repeat("\xff", m.Len), m.Off, m.Len)
					add("emptied", "", m.Off, m.Len)
				}
			}
		}
	}
}

// pdfFaultsObjStmHeader: every number of every object-stream header := hostile values (the header lives inside
// the possibly compressed stream data, out of reach of the byte-level marks).
func pdfFaultsObjStmHeader(bp basePDF, emit emitFn) {
	ids := make([]string, 0, len(bp.res.StmMembers))
	for id := range bp.res.StmMembers {
		ids = append(ids, id)
	}
	sort.Strings(ids)
	for _, id := range ids {
		for k := 0; k < bp.res.StmMembers[id]; k++ {
			for field, what := range []string{"object number", "offset"} {
				for _, h := range append([]string{"1", "7", "40", "100000"}, hostileInts...) {
					id, k, field, h := id, k, field, h
					emit("file", ".pdf", fmt.Sprintf("objstm-header: %s pair %d %s := %s [%s]", id, k, what, h, bp.name), func() []byte {
						l2 := bp.l
						l2.ObjStmHead = []pdfw.HeadFault{{Stm: id, Index: k, Field: field, New: h}}
						return pdfw.Write(bp.docs, l2).Bytes
					})
				}
			}
		}
	}
}

func clipS(s string) string {
	if len(s) > 20 {
		return s[:20]
	}
	return s
}

// ---- ZIP formats ----------------------------------------------------------------

type member struct {
	name   string
	data   []byte
	method uint16
}

func readZip(b []byte) []member {
	zr, err := zip.NewReader(bytes.NewReader(b), int64(len(b)))
	if err != nil {
		return nil
	}
	var ms []member
	for _, f := range zr.File {
		rc, err := f.Open()
		if err != nil {
			continue
		}
		d, _ := io.ReadAll(rc)
		rc.Close()
		ms = append(ms, member{f.Name, d, f.Method})
	}
	return ms
}

func writeZip(ms []member) []byte {
	var buf bytes.Buffer
	zw := zip.NewWriter(&buf)
	for _, m := range ms {
		w, err := zw.CreateHeader(&zip.FileHeader{Name: m.name, Method: m.method})
		if err != nil {
			continue
		}
		w.Write(m.data)
	}
	zw.Close()
	return buf.Bytes()
}

var numAttr = regexp.MustCompile(`="(\d+)"`)
var closeTag = regexp.MustCompile(`</[A-Za-z:]+>`)

// zipFaults enumerates member-level and XML-level single faults.
func zipFaults(name, ext string, b []byte, maxXML int, emit emitFn) {
	add := func(fault string, build func() []byte) {
		emit("file", ext, fault+" ["+name+"]", build)
	}
	ms := readZip(b)
	for i, m := range ms {
		// drop / duplicate / empty / truncate each member
		i, m := i, m
		add("drop member "+m.name, func() []byte { return writeZip(append(append([]member{}, ms[:i]...), ms[i+1:]...)) })
		add("duplicate member "+m.name, func() []byte { return writeZip(append(append([]member{}, ms...), m)) })
		add("empty member "+m.name, func() []byte {
			emp := append([]member{}, ms...)
			emp[i] = member{m.name, nil, m.method}
			return writeZip(emp)
		})
		add("truncate member "+m.name, func() []byte {
			cut := append([]member{}, ms...)
			cut[i] = member{m.name, m.data[:len(m.data)/2], m.method}
			return writeZip(cut)
		})
		if !strings.HasSuffix(m.name, ".xml") && !strings.HasSuffix(m.name, ".rels") && !strings.HasSuffix(m.name, ".xhtml") &&
			!strings.HasSuffix(m.name, ".opf") && !strings.HasSuffix(m.name, ".ncx") && !strings.HasSuffix(m.name, ".html") {
			continue
		}
		// XML-level: numeric attributes := hostile values, remove one closing tag
		if maxXML <= 0 {
			continue
		}
		locs := numAttr.FindAllSubmatchIndex(m.data, -1)
		step := 1
		if len(locs) > maxXML {
			step = len(locs)/maxXML + 1
		}
		for k := 0; k < len(locs); k += step {
			l := locs[k]
			for _, h := range []string{"0", "-1", "2147483648", "1048577", "9223372036854775807"} {
				l, h := l, h
				add(fmt.Sprintf("%s: attribute value %q at %d := %s", m.name, m.data[l[2]:l[3]], l[2], h), func() []byte {
					x := append([]member{}, ms...)
					x[i] = member{m.name, splice(m.data, l[2], l[3]-l[2], h), m.method}
					return writeZip(x)
				})
			}
		}
		tags := closeTag.FindAllIndex(m.data, -1)
		step = 1
		if len(tags) > maxXML {
			step = len(tags)/maxXML + 1
		}
		for k := 0; k < len(tags); k += step {
			l := tags[k]
			add(fmt.Sprintf("%s: closing tag %q at %d removed", m.name, m.data[l[0]:l[1]], l[0]), func() []byte {
				x := append([]member{}, ms...)
				x[i] = member{m.name, splice(m.data, l[0], l[1]-l[0], ""), m.method}
				return writeZip(x)
			})
		}
	}
	// reorder members, truncate the archive, corrupt the deflate data
	rev := make([]member, len(ms))
	for i, m := range ms {
		rev[len(ms)-1-i] = m
	}
	add("reverse member order", func() []byte { return writeZip(rev) })
	for _, frac := range []int{1, 2, 3, 5, 7, 9} {
		frac := frac
		add(fmt.Sprintf("archive truncated to %d/10", frac), func() []byte { return b[:len(b)*frac/10] })
	}
	for k := 1; k <= 8; k++ {
		k := k
		add(fmt.Sprintf("archive byte at %d/9 flipped", k), func() []byte {
			x := append([]byte(nil), b...)
			x[len(x)*k/9-1] ^= 0x55
			return x
		})
	}
}

func repoDocs() []struct{ name, ext, path string } {
	return []struct{ name, ext, path string }{
		{"table.docx", ".docx", "/repo/docx/testdata/table.docx"},
		{"simple.xlsx", ".xlsx", "/repo/xlsx/testdata/simple.xlsx"},
		{"sample1.odt", ".odt", "/repo/odt/testdata/sample1.odt"},
		{"test.pptx", ".pptx", "/repo/pptx/testdata/test.pptx"},
		{"Frankenstein.epub", ".epub", "/repo/epubdoc/testdata/Frankenstein.epub"},
	}
}

// ---------------------------------------------------------------------------
// tests

func TestPDFFaultCatalogue(t *testing.T) {
	all := basePDFs()
	bases := all
	if !vr.Thorough() {
		bases = all[1:2] // the richest layout; the thorough tier takes all four
	}
	n := runCatalogue(t, func(emit emitFn) {
		for _, bp := range bases {
			pdfFaults(bp.name, bp.res, emit)
			pdfFaultsConsistent(bp, emit)
			pdfFaultsObjStmHeader(bp, emit)
		}
		if !vr.Thorough() {
			// of the other layouts the quick tier takes the cheap, file-consistent family only: same-length neighbours
			// (and the faults of the classic cross-reference table, which only the first layout has)
			for i, bp := range all {
				if i == 1 {
					continue
				}
				pdfFaults(bp.name, bp.res, func(entry, ext, fault string, build func() []byte) {
					if strings.Contains(fault, "(same length)") || (i == 0 && strings.Contains(fault, "xref entry")) {
						emit(entry, ext, fault, build)
					}
				})
			}
		}
	})
	if !t.Failed() {
		vr.Exhaustive(fmt.Sprintf("single-fault catalogue over %d base PDF(s): %d cases", len(bases), n))
	}
}

func TestZIPFaultCatalogue(t *testing.T) {
	maxXML := 6
	if vr.Thorough() {
		maxXML = 40
	}
	n := runCatalogue(t, func(emit emitFn) {
		for _, d := range repoDocs() {
			b, err := os.ReadFile(d.path)
			if err != nil {
				t.Fatalf("INFRA: %v", err)
			}
			mx := maxXML
			if len(b) > 200<<10 && !vr.Thorough() {
				mx = 0 // big sample documents: member-level faults only in the quick tier
			}
			zipFaults(d.name, d.ext, b, mx, emit)
		}
	})
	if !t.Failed() {
		vr.Exhaustive(fmt.Sprintf("ZIP member/XML single-fault catalogue over %d sample documents: %d cases", len(repoDocs()), n))
	}
}

// hostile fragments for the raw-bytes parsers
var hostile = []string{"<<", ">>", "[", "]", "(", ")", "<", ">", "/", "%", "{", "}", "stream\n", "endstream", "endobj", "obj", "R",
	"0 0 R", "1 0 obj", "<< /Length 9223372036854775807 >>", "/W [1 2 3]", "/Index [0 2147483648]", "/Prev 0", "/Kids [1 0 R]",
	"BT", "ET", "Tj", "TJ", "'", "\"", "Do", "BI", "ID", "EI", "q", "Q", "cm", "Tf", "/F1 1e308 Tf", "\\", "\\(", "#", "#zz", "#00",
	"beginbfchar", "endbfchar", "beginbfrange", "endbfrange", "begincodespacerange", "<0000> <FFFF>", "<D83D> <DE00>", "[ <0041> ]",
	"1e400", "-.", "+", ".", "99999999999999999999999", "\x00", "\xff\xfe", "\xfe\xff", "\r", "\n"}

// seedsFor returns small valid inputs of a raw-bytes entry point.
func seedsFor(entry string) []string {
	var seeds []string
	switch entry {
	case "coreparser":
		seeds = []string{"1 0 obj\n<< /Type /Catalog /Pages 2 0 R /A [1 2.5 (s) <AB> /N null true] >>\nendobj\n",
			"5 0 obj\n<< /Length 5 >>\nstream\nhello\nendstream\nendobj\n",
			"xref\n0 2\n0000000000 65535 f \n0000000009 00000 n \ntrailer\n<< /Size 2 /Root 1 0 R /Prev 0 >>\nstartxref\n0\n%%EOF\n"}
	case "contentstream":
		seeds = []string{"q 1 0 0 1 10 10 cm BT /F1 12 Tf 72 700 Td (Hello) Tj [(a) -120 (b)] TJ T* (x) ' 1 2 (y) \" ET Q /Fm1 Do",
			"0 0 m 10 10 l S 0 0 10 10 re f /GS1 gs << /A 1 >> BDC EMC"}
	case "cmap":
		seeds = []string{string(pdfw.ToUnicodeCMap([]pdfw.MapEnt{{Code: 1, Text: "A"}, {Code: 2, Text: "\U0001F600"}}, 2)),
			"1 begincodespacerange\n<00> <FF>\nendcodespacerange\n2 beginbfrange\n<01> <05> <0041>\n<10> <12> [<0061> <0062> <0063>]\nendbfrange\n"}
	case "streamdecode":
		seeds = []string{"<< /Filter /FlateDecode /DecodeParms << /Predictor 12 /Columns 4 >> >>\x00x\x9c\x01\x00\x00\xff\xff",
			"<< /Filter [/ASCII85Decode /ASCIIHexDecode] >>\x00<~87cURD]i,\"Ebo80~>",
			"<< /Type /ObjStm /N 2 /First 8 >>\x001 0 2 3 <<>> [ ]"}
	default:
		seeds = []string{"<html><body><nav><a href=x>n</a></nav><h1>T</h1><p>a<b>b</b></p><ul><li>x<ul><li>y</li></ul></li></ul>" +
			"<table><tr><td rowspan=2 colspan=2>c</td></tr></table><pre>code</pre></body></html>"}
	}
	return seeds
}

// token-level hostile substitutes, per entry point
var hostileTokens = map[string][]string{
	"contentstream": {"/A#", "/A#z", "/A#zz", "/#", "/", "(", ")", "(a\\", "(\\", "<", "<4", "<zz>", "<4 1>", ">", "[", "]", "<<", ">>", "<< /A", "BI", "ID", "EI",
		"BI /W 1 ID", "'", "\"", "1e999", "-", "+", ".", "--1", "1.2.3", "99999999999999999999", "-99999999999999999999", "true", "null", "%", "\\", "{", "}",
		"Do", "/Fm1", "BT", "ET", "TJ", "Tj", "q", "Q", "cm", "Tf", "Td", "T*", "\x00", "\xff"},
	"coreparser": {"/A#", "/A#zz", "/", "(", ")", "(a\\", "<", "<4", "<zz>", ">", "[", "]", "<<", ">>", "<< /A", "obj", "endobj", "stream", "stream\n", "endstream",
		"R", "0 0 R", "-1 0 R", "99999999999 0 R", "1 99999999999 R", "xref", "trailer", "startxref", "1e999", "-", "+", ".", "1.2.3", "99999999999999999999",
		"/Length -1", "/Length 99999999999", "true", "null", "%", "\\", "{", "}", "\x00"},
	"cmap": {"<00000000> <FFFFFFFF> <D83DDE00>", "<00000000> <FFFFFFFF> <00000000>", "<000000> <FFFFFF> <00410000>", "<0000> <FFFF> <FF00>", "<00> <FF> <D83DDE00>",
		"<", ">", "<>", "<zz>", "<0>", "<00000000000>", "[", "]", "[<0041>", "<0041>]", "begincodespacerange", "endcodespacerange", "beginbfchar", "endbfchar",
		"beginbfrange", "endbfrange", "99999999999 beginbfchar", "-1 beginbfrange", "<FFFF> <0000> <0041>", "<0000> <FFFF> <0041>", "<00000000> <FFFFFFFF> <0041>",
		"<00000000> <FFFFFFFF> [<0041>]", "<0000> <FFFF> <D83DDE00>", "<00> <FF> <FFFFFFFFFFFFFFFF>", "<D800>", "<DC00>", "<D83D>", "usecmap", "\x00"},
}

// tokenFaults replaces and precedes every white-space separated token of every seed by every hostile token.
func tokenFaults(entry string, emit emitFn) {
	for si, seed := range seedsFor(entry) {
		fields := strings.Fields(seed)
		if len(fields) > 60 {
			fields = fields[:60]
		}
		for i := range fields {
			for _, h := range hostileTokens[entry] {
				i, h := i, h
				for _, mode := range []string{"replace", "insert"} {
					mode := mode
					emit(entry, "", fmt.Sprintf("token: seed %d, %s %q at token %d (%q)", si, mode, h, i, clipS(fields[i])), func() []byte {
						out := append([]string{}, fields[:i]...)
						out = append(out, h)
						if mode == "insert" {
							out = append(out, fields[i])
						}
						out = append(out, fields[i+1:]...)
						return []byte(strings.Join(out, " "))
					})
				}
			}
		}
	}
}

func TestTokenFaultCatalogue(t *testing.T) {
	n := runCatalogue(t, func(emit emitFn) {
		for _, e := range []string{"contentstream", "coreparser", "cmap"} {
			tokenFaults(e, emit)
		}
	})
	if !t.Failed() {
		vr.Exhaustive(fmt.Sprintf("token-level hostile substitution catalogue for the content-stream, object and CMap parsers: %d cases", n))
	}
}

func genBytesCase(t *rapid.T) Case {
	entry := rapid.SampledFrom([]string{"coreparser", "contentstream", "cmap", "streamdecode", "htmlstring"}).Draw(t, "entry")
	seeds := seedsFor(entry)
	b := []byte(rapid.SampledFrom(seeds).Draw(t, "seed"))
	n := rapid.IntRange(1, 6).Draw(t, "nMut")
	var desc []string
	for i := 0; i < n; i++ {
		if len(b) == 0 {
			b = []byte(" ")
		}
		pos := rapid.IntRange(0, len(b)-1).Draw(t, "pos")
		switch rapid.SampledFrom([]string{"insert", "insert", "delete", "flip", "truncate", "repeat"}).Draw(t, "mut") {
		case "insert":
			h := rapid.SampledFrom(hostile).Draw(t, "hostile")
			b = splice(b, pos, 0, h)
			desc = append(desc, fmt.Sprintf("insert %q at %d", h, pos))
		case "delete":
			k := rapid.IntRange(1, 8).Draw(t, "k")
			if pos+k > len(b) {
				k = len(b) - pos
			}
			b = splice(b, pos, k, "")
			desc = append(desc, fmt.Sprintf("delete %d at %d", k, pos))
		case "flip":
			b = append([]byte(nil), b...)
			b[pos] ^= byte(rapid.IntRange(1, 255).Draw(t, "xor"))
			desc = append(desc, fmt.Sprintf("flip at %d", pos))
		case "truncate":
			b = b[:pos]
			desc = append(desc, fmt.Sprintf("truncate at %d", pos))
		case "repeat":
			k := rapid.SampledFrom([]int{10, 100, 2000, 20000, 20000, 300000}).Draw(t, "times")
			h := rapid.SampledFrom([]string{"[", "<<", "(", "q ", "<ul><li>", "<div>", "<table><tr><td>", "BT ", "/A <<", "<b>", "[[]", "[<<>>", "<</A[]/B"}).Draw(t, "rep")
			b = splice(b, pos, 0, strings.Repeat(h, k))
			desc = append(desc, fmt.Sprintf("insert %q x %d at %d", h, k, pos))
		}
	}
	return Case{Entry: entry, Fault: "bytes: " + strings.Join(desc, "; "), Payload: b}
}

func TestByteMutation(t *testing.T) {
	vr.Prop(t, "robust", vr.N(1200, 60000), genBytesCase, meta, checkCase)
}

// double faults on the PDF catalogue (sampled) and byte mutation of whole files
func genDoubleFault(t *rapid.T) Case {
	bases := basePDFs()
	bp := bases[rapid.IntRange(0, len(bases)-1).Draw(t, "base")]
	b := bp.bytes
	var desc []string
	marks := bp.res.Marks
	// apply from the back so earlier offsets stay valid
	i1 := rapid.IntRange(0, len(marks)-1).Draw(t, "m1")
	i2 := rapid.IntRange(0, len(marks)-1).Draw(t, "m2")
	idx := []int{i1, i2}
	sort.Sort(sort.Reverse(sort.IntSlice(idx)))
	for _, i := range idx {
		m := marks[i]
		if m.Off+m.Len > len(b) {
			continue
		}
		old := string(b[m.Off : m.Off+m.Len])
		switch m.Role {
		case "int", "startxref":
			h := rapid.SampledFrom(hostileInts).Draw(t, "int")
			b = splice(b, m.Off, m.Len, h)
			desc = append(desc, fmt.Sprintf("int %q at %d := %s", old, m.Off, h))
		case "ref":
			k := rapid.IntRange(0, 30).Draw(t, "target")
			b = splice(b, m.Off, m.Len, fmt.Sprintf("%d 0 R", k))
			desc = append(desc, fmt.Sprintf("ref %q at %d := %d 0 R", old, m.Off, k))
		case "delim":
			b = splice(b, m.Off, m.Len, "")
			desc = append(desc, fmt.Sprintf("delete %q at %d", old, m.Off))
		case "streamdata":
			if m.Len > 0 {
				x := append([]byte(nil), b...)
				x[m.Off+rapid.IntRange(0, m.Len-1).Draw(t, "at")] ^= byte(rapid.IntRange(1, 255).Draw(t, "xor"))
				b = x
				desc = append(desc, fmt.Sprintf("stream byte flipped in data at %d", m.Off))
			}
		case "xrefentry":
			v := fmt.Sprintf("%010d", rapid.IntRange(0, len(b)+10).Draw(t, "off"))
			b = splice(b, m.Off, 10, v)
			desc = append(desc, fmt.Sprintf("xref entry %q offset := %s", old, v))
		default:
			b = b[:m.Off]
			desc = append(desc, fmt.Sprintf("truncate at %d", m.Off))
		}
	}
	return Case{Entry: "file", Ext: ".pdf", Fault: "double: " + strings.Join(desc, " + ") + " [" + bp.name + "]", Payload: b}
}

func TestPDFDoubleFaults(t *testing.T) {
	vr.Prop(t, "robust", vr.N(400, 50000), genDoubleFault, meta, checkCase)
}

var _ = json.Marshal
