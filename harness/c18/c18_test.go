// C18 — Multi-part documents are read in their declared order.
//
// Generator: XLSX / PPTX / EPUB packages from the independent writers
// gen/xlsxw, gen/pptxw and gen/epubw. Every text-bearing spot of every part
// holds a token that occurs nowhere else, the declared order (workbook
// <sheets>, presentation <sldIdLst>, OPF <spine>) is drawn independently of the
// part names and of the ZIP member order, parts live at renamed / nested
// paths, some declared parts are missing, and unreferenced decoy parts with
// tempting names are present. Oracle: the model. PageCount = number of
// declared parts whose file exists; page i (reader API, Document(), the i-th
// run of tokens in Text() and Markdown) carries exactly the tokens of the i-th
// such part; decoy tokens appear nowhere.
package c18

import (
	"fmt"
	"os"
	"path/filepath"
	"regexp"
	"sort"
	"strings"
	"testing"

	"github.com/tsawler/tabula"
	"github.com/tsawler/tabula/epubdoc"
	"github.com/tsawler/tabula/model"
	"github.com/tsawler/tabula/pptx"
	"github.com/tsawler/tabula/xlsx"
	"pgregory.net/rapid"

	"verif/harness/gen/epubw"
	"verif/harness/gen/pptxw"
	"verif/harness/gen/xlsxw"
	"verif/harness/gen/zipw"
	"verif/harness/oracle/mdparse"
	"verif/harness/vr"
)

func TestMain(m *testing.M) { vr.Main(m) }

// ---------------------------------------------------------------------------
// tokens

var tokenRE = regexp.MustCompile(`tok[0-9]{3}z`)

// tokens hands out tok000z, tok001z, …: fixed length, so no token is a
// substring of another, and no dependence on random draws.
type tokens struct{ n int }

func (k *tokens) next() string {
	s := fmt.Sprintf("tok%03dz", k.n)
	k.n++
	return s
}

func found(s string) []string { return tokenRE.FindAllString(s, -1) }

func sortedCopy(xs []string) []string {
	out := append([]string{}, xs...)
	sort.Strings(out)
	return out
}

func sameSet(a, b []string) bool {
	a, b = sortedCopy(a), sortedCopy(b)
	if len(a) != len(b) {
		return false
	}
	for i := range a {
		if a[i] != b[i] {
			return false
		}
	}
	return true
}

// part is the expectation for one declared, readable part.
type part struct {
	name     string   // how the part is called in messages
	must     []string // tokens that must appear in this page, each exactly once
	may      []string // tokens that may appear in this page (at most once) and nowhere else
	mustText []string // additionally required in the flat Text() rendering (speaker notes)
}

// checkPages compares per-page token lists (from a reader API or Document())
// with the expectation: same number of pages, page i holds exactly the
// must-tokens of part i (plus optionally its may-tokens), nothing else.
func checkPages(view string, pages [][]string, parts []part) error {
	if len(pages) != len(parts) {
		return fmt.Errorf("%s: %d pages, want %d (the declared parts whose file exists)", view, len(pages), len(parts))
	}
	for i, p := range parts {
		got := map[string]int{}
		for _, t := range pages[i] {
			got[t]++
		}
		for _, t := range p.must {
			if got[t] != 1 {
				return fmt.Errorf("%s: page %d should be %s: its text %s occurs %d times there; the page holds %v", view, i+1, p.name, t, got[t], pages[i])
			}
			delete(got, t)
		}
		for _, t := range append(append([]string{}, p.may...), p.mustText...) {
			if got[t] > 1 {
				return fmt.Errorf("%s: page %d (%s): text %s occurs %d times", view, i+1, p.name, t, got[t])
			}
			delete(got, t)
		}
		for t := range got {
			return fmt.Errorf("%s: page %d should be %s but also holds %s, which belongs elsewhere (page holds %v)", view, i+1, p.name, t, pages[i])
		}
	}
	return nil
}

// checkFlat checks a flat rendering (Text(), Markdown): every must token
// exactly once, parts in declared order (all tokens of part i before all
// tokens of part i+1), foreign tokens nowhere.
func checkFlat(view, s string, parts []part, withNotes bool) error {
	owner := map[string]int{}
	optional := map[string]bool{}
	for i, p := range parts {
		for _, t := range p.must {
			owner[t] = i
		}
		for _, t := range p.may {
			owner[t] = i
			optional[t] = true
		}
		for _, t := range p.mustText {
			owner[t] = i
			optional[t] = !withNotes
		}
	}
	count := map[string]int{}
	last := -1
	lastTok := ""
	for _, t := range found(s) {
		i, ok := owner[t]
		if !ok {
			return fmt.Errorf("%s: contains %s, which belongs to no declared, readable part (a decoy, an unreadable or an undeclared part)", view, t)
		}
		count[t]++
		if i < last {
			return fmt.Errorf("%s: %s (part %d: %s) comes after %s (part %d: %s): parts are not in declared order", view, t, i+1, parts[i].name, lastTok, last+1, parts[last].name)
		}
		if i > last {
			last, lastTok = i, t
		}
	}
	for t, i := range owner {
		if count[t] > 1 || (count[t] == 0 && !optional[t]) {
			return fmt.Errorf("%s: text %s of part %d (%s) occurs %d times, want once", view, t, i+1, parts[i].name, count[t])
		}
	}
	return nil
}

func pageTexts(p *model.Page) []string {
	var sb strings.Builder
	for _, e := range p.Elements {
		switch v := e.(type) {
		case *model.Table:
			for _, row := range v.Rows {
				for _, c := range row {
					sb.WriteString(c.Text + "\n")
				}
			}
		case *model.List:
			for _, it := range v.Items {
				sb.WriteString(it.Text + "\n")
			}
		default:
			if te, ok := e.(model.TextElement); ok {
				sb.WriteString(te.GetText() + "\n")
			}
		}
	}
	return found(sb.String())
}

// checkTabula runs the format-independent clauses through the root package.
func checkTabula(path string, parts []part, headings []string) error {
	n, err := tabula.Open(path).PageCount()
	if err != nil {
		return fmt.Errorf("PageCount(): %v", err)
	}
	if n != len(parts) {
		return fmt.Errorf("PageCount() = %d, want %d (the declared parts whose file exists)", n, len(parts))
	}
	text, _, err := tabula.Open(path).Text()
	if err != nil {
		return fmt.Errorf("Text(): %v", err)
	}
	if err := checkFlat("Text()", text, parts, true); err != nil {
		return err
	}
	doc, _, err := tabula.Open(path).Document()
	if err != nil {
		return fmt.Errorf("Document(): %v", err)
	}
	var pages [][]string
	for i, p := range doc.Pages {
		if p.Number != i+1 {
			return fmt.Errorf("Document(): page at index %d has number %d", i, p.Number)
		}
		pages = append(pages, pageTexts(p))
	}
	if err := checkPages("Document()", pages, parts); err != nil {
		return err
	}
	md, _, err := tabula.Open(path).ToMarkdown()
	if err != nil {
		return fmt.Errorf("ToMarkdown(): %v", err)
	}
	if err := checkFlat("ToMarkdown()", md, parts, false); err != nil {
		return err
	}
	if headings != nil {
		var got []string
		for _, b := range mdparse.Parse(md) {
			if b.Kind == "heading" {
				got = append(got, mdparse.Norm(b.Text))
			}
		}
		if strings.Join(got, "\x00") != strings.Join(headings, "\x00") {
			return fmt.Errorf("ToMarkdown(): headings %q, want %q", got, headings)
		}
	}
	return nil
}

func withFile(ext string, data []byte, fn func(path string) error) error {
	dir, err := os.MkdirTemp("", "c18-")
	if err != nil {
		return fmt.Errorf("INFRA: %v", err)
	}
	defer os.RemoveAll(dir)
	p := filepath.Join(dir, "case"+ext)
	if err := os.WriteFile(p, data, 0o644); err != nil {
		return fmt.Errorf("INFRA: %v", err)
	}
	return fn(p)
}

// orderClasses tells whether the declared order of the readable parts differs
// from their file-name order and from their ZIP member order.
func orderClasses(declared []string, members []zipw.Member) (nameDiffers, zipDiffers bool) {
	byName := sortedCopy(declared)
	pos := map[string]int{}
	for i, m := range members {
		pos[m.Name] = i
	}
	byZip := append([]string{}, declared...)
	sort.SliceStable(byZip, func(i, j int) bool { return pos[byZip[i]] < pos[byZip[j]] })
	for i := range declared {
		nameDiffers = nameDiffers || declared[i] != byName[i]
		zipDiffers = zipDiffers || declared[i] != byZip[i]
	}
	return
}

func orderLabels(prefix string, nameDiffers, zipDiffers bool) []string {
	var l []string
	if nameDiffers {
		l = append(l, prefix+":declared!=name-order")
	}
	if zipDiffers {
		l = append(l, prefix+":declared!=zip-order")
	}
	if !nameDiffers && !zipDiffers {
		l = append(l, prefix+":orders-coincide")
	}
	return l
}

// ---------------------------------------------------------------------------
// XLSX

type XCase struct {
	WB xlsxw.Workbook `json:"wb"`
}

func xlsxParts(w xlsxw.Workbook) (parts []part, names, files []string) {
	for i, s := range w.Sheets {
		if s.Missing {
			continue
		}
		var toks []string
		for _, c := range s.Cells {
			toks = append(toks, found(c.Display())...)
		}
		// the sheet name is declared in workbook.xml; it shows up in the Markdown heading only
		parts = append(parts, part{name: fmt.Sprintf("sheet %q (%s)", s.Name, w.PartName(i)), must: toks, may: found(s.Name)})
		names = append(names, s.Name)
		files = append(files, w.PartName(i))
	}
	return
}

func checkXLSX(c XCase) error {
	data, err := c.WB.Bytes()
	if err != nil {
		return fmt.Errorf("INFRA: writer rejected its own model: %v", err)
	}
	parts, names, _ := xlsxParts(c.WB)
	return withFile(".xlsx", data, func(path string) error {
		r, err := xlsx.Open(path)
		if err != nil {
			return fmt.Errorf("xlsx.Open failed on a conforming workbook: %v", err)
		}
		defer r.Close()
		if got := r.SheetNames(); strings.Join(got, "\x00") != strings.Join(names, "\x00") {
			return fmt.Errorf("SheetNames() = %q, want %q (workbook order, readable sheets only)", got, names)
		}
		var pages [][]string
		for i := 0; i < r.SheetCount(); i++ {
			sh, _ := r.Sheet(i)
			var sb strings.Builder
			for _, row := range sh.Rows {
				for _, cell := range row {
					sb.WriteString(cell.Value + "\n")
				}
			}
			pages = append(pages, found(sb.String()))
		}
		if err := checkPages("xlsx.Reader", pages, parts); err != nil {
			return err
		}
		return checkTabula(path, parts, names)
	})
}

func init() { vr.Register("xlsx", checkXLSX) }

func genTokenSheet(t *rapid.T, k *tokens, name string) xlsxw.Sheet {
	s := xlsxw.Sheet{Name: name}
	n := rapid.IntRange(1, 3).Draw(t, "cells")
	used := map[[2]int]bool{}
	for i := 0; i < n; i++ {
		r, c := rapid.IntRange(0, 4).Draw(t, "row"), rapid.IntRange(0, 4).Draw(t, "col")
		if used[[2]int{r, c}] {
			continue
		}
		used[[2]int{r, c}] = true
		kind := rapid.SampledFrom([]xlsxw.Kind{xlsxw.Shared, xlsxw.Inline, xlsxw.FormulaStr, xlsxw.SharedRich}).Draw(t, "kind")
		cell := xlsxw.Cell{Row: r, Col: c, Kind: kind}
		switch kind {
		case xlsxw.SharedRich:
			tok := k.next()
			cell.Runs = []string{tok[:3], tok[3:]}
		case xlsxw.FormulaStr:
			cell.Text, cell.Formula = k.next(), `A1&"x"`
		default:
			cell.Text = k.next()
		}
		s.Cells = append(s.Cells, cell)
	}
	// a sheet that reaches the last column (XFD, 16384) or the last row (1048576) a worksheet has: declared and
	// readable like any other (a dense grid of one such row or column is small)
	switch rapid.IntRange(0, 11).Draw(t, "edgeCell") {
	case 0:
		if !used[[2]int{0, xlsxw.MaxCol}] {
			for i := range s.Cells {
				s.Cells[i].Row = 0 // one row only: the grid is one row of 16384 cells
			}
			seen := map[int]bool{}
			var keep []xlsxw.Cell
			for _, c := range s.Cells {
				if !seen[c.Col] {
					seen[c.Col] = true
					keep = append(keep, c)
				}
			}
			s.Cells = append(keep, xlsxw.Cell{Row: 0, Col: xlsxw.MaxCol, Kind: xlsxw.Inline, Text: k.next()})
		}
	}
	return s
}

func genXLSX(t *rapid.T) XCase {
	k := &tokens{}
	var w xlsxw.Workbook
	n := rapid.IntRange(1, 6).Draw(t, "sheets")
	for i := 0; i < n; i++ {
		// The name is declared in workbook.xml. Its leading word is drawn, so the
		// alphabetical order of the names is independent of the workbook order;
		// plain letters/digits so that it reads the same in a Markdown heading.
		word := rapid.SampledFrom([]string{"Alpha", "Zeta", "Mid", "beta", "Sheet1", "Sheet10", "Sheet2", "2", "10", "Öl"}).Draw(t, "nameWord")
		w.Sheets = append(w.Sheets, genTokenSheet(t, k, word+" "+k.next()))
	}
	if n >= 2 && rapid.IntRange(0, 3).Draw(t, "emptySheet") == 0 {
		// a declared, readable worksheet without any cell (the spare "Sheet2"): still a sheet, still a page
		w.Sheets[rapid.IntRange(0, n-2).Draw(t, "emptyIdx")].Cells = nil
	}
	for i, d := 0, rapid.IntRange(0, 4).Draw(t, "decoys")-2; i < d; i++ {
		w.Decoys = append(w.Decoys, genTokenSheet(t, k, fmt.Sprintf("Decoy%d", i)))
	}
	if n > 1 {
		for i, m := 0, rapid.IntRange(0, 5).Draw(t, "missing")-3; i < m && i < n-1; i++ {
			w.Sheets[rapid.IntRange(0, n-1).Draw(t, "missingIdx")].Missing = true
		}
		all := true
		for _, s := range w.Sheets {
			all = all && s.Missing
		}
		if all {
			w.Sheets[0].Missing = false
		}
	}
	xlsxw.GenPhysical(t, &w)
	for i := range w.Sheets {
		w.Sheets[i].OmitRowR = vr.Want("xlsx-row-without-r", w.Sheets[i].OmitRowR)
	}
	if !vr.Want("xlsx-sst-renamed", w.Opt.SSTPart != "") {
		w.Opt.SSTPart = ""
	}
	return XCase{w}
}

func metaXLSX(c XCase) vr.Meta {
	_, _, files := xlsxParts(c.WB)
	ms, _ := c.WB.Members()
	nd, zd := orderClasses(files, ms)
	lab := orderLabels("xlsx", nd, zd)
	lab = append(lab, fmt.Sprintf("xlsx:sheets=%d", len(c.WB.Sheets)))
	_, names, _ := xlsxParts(c.WB)
	if !sort.StringsAreSorted(names) {
		lab = append(lab, "xlsx:declared!=sheet-name-order")
	}
	if len(c.WB.Decoys) > 0 {
		lab = append(lab, "xlsx:decoy-parts")
	}
	if c.WB.Opt.StaleRels {
		lab = append(lab, "xlsx:stale-workbook.rels")
	}
	for _, s := range c.WB.Sheets {
		if s.Missing {
			lab = append(lab, "xlsx:missing-part")
			break
		}
	}
	for _, s := range c.WB.Sheets {
		if s.AbsTarget {
			lab = append(lab, "xlsx:absolute-target")
			break
		}
	}
	for _, s := range c.WB.Sheets {
		if !strings.HasPrefix(s.Part, "xl/worksheets/sheet") {
			lab = append(lab, "xlsx:renamed-part")
			break
		}
	}
	return vr.Meta{FP: fmt.Sprintf("%+v", c.WB), NonTrivial: nd && zd, Labels: lab}
}

func TestXLSXOrder(t *testing.T) {
	vr.Prop(t, "xlsx", vr.N(2500, 30000), genXLSX, metaXLSX, checkXLSX)
}

// ---------------------------------------------------------------------------
// PPTX

type PCase struct {
	Deck pptxw.Deck `json:"deck"`
}

func pptxParts(d pptxw.Deck) (parts []part, files []string) {
	for i, s := range d.Slides {
		if s.Missing {
			continue
		}
		p := part{name: fmt.Sprintf("slide %s", d.PartName(i))}
		for _, x := range s.Texts() {
			p.must = append(p.must, found(x)...)
		}
		for _, x := range s.NotesTexts() {
			p.mustText = append(p.mustText, found(x)...)
		}
		if s.Notes != nil {
			p.may = append(p.may, found(s.Notes.SlideNum)...)
		}
		parts = append(parts, p)
		files = append(files, d.PartName(i))
	}
	return
}

// selections returns slide selections for a deck with n readable slides: ascending, descending, with a gap, a single one.
func (c PCase) selections(n int) [][]int {
	out := [][]int{{n - 1}}
	if n >= 2 {
		out = append(out, []int{n - 1, 0}, []int{0, n - 1})
	}
	if n >= 3 {
		out = append(out, []int{1}, []int{2, 0})
	}
	return out
}

func slideTokens(s *pptx.Slide) []string {
	var sb strings.Builder
	seenTitle := false
	for _, b := range s.Content {
		if b.IsTitle {
			seenTitle = true
		}
		sb.WriteString(b.Text + "\n")
	}
	if !seenTitle {
		sb.WriteString(s.Title + "\n")
	}
	for _, t := range s.Tables {
		for _, row := range t.Rows {
			for _, c := range row {
				sb.WriteString(c.Text + "\n")
			}
		}
	}
	sb.WriteString(s.Notes + "\n")
	return found(sb.String())
}

func checkPPTX(c PCase) error {
	data, err := c.Deck.Bytes()
	if err != nil {
		return fmt.Errorf("INFRA: writer rejected its own model: %v", err)
	}
	parts, _ := pptxParts(c.Deck)
	return withFile(".pptx", data, func(path string) error {
		r, err := pptx.Open(path)
		if err != nil {
			return fmt.Errorf("pptx.Open failed on a conforming presentation: %v", err)
		}
		defer r.Close()
		var pages [][]string
		for i := 0; i < r.SlideCount(); i++ {
			s, _ := r.Slide(i)
			pages = append(pages, slideTokens(s))
		}
		// through the reader API the notes are part of the slide
		withNotes := make([]part, len(parts))
		for i, p := range parts {
			withNotes[i] = part{name: p.name, must: append(append([]string{}, p.must...), p.mustText...), may: p.may}
		}
		if err := checkPages("pptx.Reader", pages, withNotes); err != nil {
			return err
		}
		// a selection of slides: exactly the texts of the selected slides, and the reader answers afterwards as before
		if n := r.SlideCount(); n > 0 {
			before, _ := r.Text()
			beforeMD, _ := r.Markdown()
			for _, sel := range c.selections(n) {
				want := map[string]bool{}
				for _, i := range sel {
					for _, tk := range withNotes[i].must {
						want[tk] = false
					}
				}
				for _, view := range []string{"TextWithOptions", "MarkdownWithOptions"} {
					o := pptx.ExtractOptions{IncludeTitles: true, IncludeNotes: true, SlideNumbers: sel}
					var out string
					if view == "TextWithOptions" {
						out, _ = r.TextWithOptions(o)
					} else {
						out, _ = r.MarkdownWithOptions(o)
					}
					for k := range want {
						want[k] = false
					}
					for _, tk := range found(out) {
						if _, ok := want[tk]; !ok {
							mayBe := false
							for _, i := range sel {
								for _, m := range withNotes[i].may {
									mayBe = mayBe || m == tk
								}
							}
							if !mayBe {
								return fmt.Errorf("pptx.Reader.%s(SlideNumbers %v) holds %s, which is on none of the selected slides", view, sel, tk)
							}
							continue
						}
						want[tk] = true
					}
					for k, seen := range want {
						if !seen {
							return fmt.Errorf("pptx.Reader.%s(SlideNumbers %v) lacks %s of a selected slide", view, sel, k)
						}
					}
				}
				if after, _ := r.Text(); after != before {
					return fmt.Errorf("pptx.Reader.Text() changed after an extraction with SlideNumbers %v", sel)
				}
				if after, _ := r.Markdown(); after != beforeMD {
					return fmt.Errorf("pptx.Reader.Markdown() changed after an extraction with SlideNumbers %v", sel)
				}
				for i := 0; i < r.SlideCount(); i++ {
					sl, _ := r.Slide(i)
					if fmt.Sprint(slideTokens(sl)) != fmt.Sprint(pages[i]) {
						return fmt.Errorf("pptx.Reader.Slide(%d) changed after an extraction with SlideNumbers %v", i, sel)
					}
				}
			}
		}
		return checkTabula(path, parts, nil)
	})
}

func init() { vr.Register("pptx", checkPPTX) }

func genPPTX(t *rapid.T) PCase {
	k := &tokens{}
	text := func(*rapid.T, string) string { return k.next() }
	var d pptxw.Deck
	n := rapid.IntRange(1, 6).Draw(t, "slides")
	for i := 0; i < n; i++ {
		s := pptxw.GenSlide(t, text)
		if rapid.IntRange(0, 2).Draw(t, "hasNotes") == 0 {
			s.Notes = pptxw.GenNotes(t, text)
			if rapid.Bool().Draw(t, "notesSlideNum") {
				s.Notes.SlideNum = k.next()
			}
		}
		d.Slides = append(d.Slides, s)
	}
	for i, m := 0, vrInt(t, "decoys", 0, 4)-2; i < m; i++ {
		d.Decoys = append(d.Decoys, pptxw.GenSlide(t, text))
	}
	if n > 1 {
		for i, m := 0, vrInt(t, "missing", 0, 5)-3; i < m && i < n-1; i++ {
			sl := &d.Slides[rapid.IntRange(0, n-1).Draw(t, "missingIdx")]
			sl.Missing = true
			sl.Dangling = rapid.Bool().Draw(t, "dangling") // unreadable because the relationship itself is absent
		}
		all := true
		for _, s := range d.Slides {
			all = all && s.Missing
		}
		if all {
			d.Slides[0].Missing, d.Slides[0].Dangling = false, false
		}
	}
	pptxw.GenPhysical(t, &d)
	d.Opt.MasterText = "Click to edit " + k.next() // master/layout prompt text belongs to no slide
	return PCase{d}
}

func vrInt(t *rapid.T, label string, lo, hi int) int { return rapid.IntRange(lo, hi).Draw(t, label) }

func metaPPTX(c PCase) vr.Meta {
	_, files := pptxParts(c.Deck)
	ms, _ := c.Deck.Members()
	nd, zd := orderClasses(files, ms)
	lab := orderLabels("pptx", nd, zd)
	lab = append(lab, fmt.Sprintf("pptx:slides=%d", len(c.Deck.Slides)))
	if len(c.Deck.Decoys) > 0 {
		lab = append(lab, "pptx:decoy-parts")
	}
	flags := map[string]bool{}
	for _, s := range c.Deck.Slides {
		flags["pptx:missing-part"] = flags["pptx:missing-part"] || s.Missing
		flags["pptx:dangling-rid"] = flags["pptx:dangling-rid"] || s.Dangling
		flags["pptx:notes"] = flags["pptx:notes"] || s.Notes != nil
		flags["pptx:absolute-target"] = flags["pptx:absolute-target"] || s.AbsTarget
		flags["pptx:renamed-part"] = flags["pptx:renamed-part"] || !strings.HasPrefix(s.Part, "ppt/slides/slide")
		flags["pptx:table"] = flags["pptx:table"] || len(s.Tables) > 0
		flags["pptx:footer-placeholders"] = flags["pptx:footer-placeholders"] || s.Footer != "" || s.Date != "" || s.SlideNum != ""
	}
	flags["pptx:minimal-package"] = c.Deck.Opt.Minimal
	for f, on := range flags {
		if on {
			lab = append(lab, f)
		}
	}
	sort.Strings(lab)
	return vr.Meta{FP: fmt.Sprintf("%+v", c.Deck), NonTrivial: nd && zd, Labels: lab}
}

func TestPPTXOrder(t *testing.T) {
	vr.Prop(t, "pptx", vr.N(2500, 30000), genPPTX, metaPPTX, checkPPTX)
}

// ---------------------------------------------------------------------------
// EPUB

type ECase struct {
	Book epubw.Book `json:"book"`
}

func epubParts(b epubw.Book) (parts []part, ids, files []string) {
	for _, s := range b.Spine {
		it := b.Items[s.Item]
		if it.Missing {
			continue
		}
		var toks []string
		for _, x := range it.Chapter.Texts() {
			toks = append(toks, found(x)...)
		}
		parts = append(parts, part{name: fmt.Sprintf("spine item %s (%s)", it.ID, b.ZipName(s.Item)), must: toks})
		ids = append(ids, it.ID)
		files = append(files, b.ZipName(s.Item))
	}
	return
}

func checkEPUB(c ECase) error {
	data, err := c.Book.Bytes()
	if err != nil {
		return fmt.Errorf("INFRA: writer rejected its own model: %v", err)
	}
	parts, ids, _ := epubParts(c.Book)
	return withFile(".epub", data, func(path string) error {
		r, err := epubdoc.Open(path)
		if err != nil {
			return fmt.Errorf("epubdoc.Open failed on a conforming publication: %v", err)
		}
		defer r.Close()
		var pages [][]string
		var gotIDs []string
		for _, ch := range r.Chapters() {
			gotIDs = append(gotIDs, ch.ID)
			pages = append(pages, found(string(ch.Content)))
		}
		if strings.Join(gotIDs, " ") != strings.Join(ids, " ") {
			return fmt.Errorf("Chapters() are items %v, want %v (spine order, readable items only)", gotIDs, ids)
		}
		if err := checkPages("epubdoc.Reader", pages, parts); err != nil {
			return err
		}
		return checkTabula(path, parts, nil)
	})
}

func init() { vr.Register("epub", checkEPUB) }

func genEPUB(t *rapid.T) ECase {
	k := &tokens{}
	b := epubw.GenBook(t, 6, func(*rapid.T, string) string { return k.next() })
	for i := range b.Items {
		it := &b.Items[i]
		if strings.Contains(it.Path, "+") && vr.Off("epub-plus-in-href") {
			vr.Want("epub-plus-in-href", true)
			it.Path = strings.ReplaceAll(it.Path, "+", "-")
		}
	}
	// EPUB 2: the other two OPS 2.0 core content document types may stand in the spine (OPS 2.0.1 section 1.3.7: DTBook;
	// OEBPS 1.2 documents "text/x-oeb1-document", deprecated but still a core media type, OPF 2.0.1 1.3.7)
	if strings.HasPrefix(b.Version, "2") && rapid.IntRange(0, 2).Draw(t, "legacyContentDocs") == 0 {
		for _, sp := range b.Spine {
			it := &b.Items[sp.Item]
			if it.Role != "" || it.Missing || it.MediaType != "" || it.Data != nil || len(it.Chapter.Texts()) == 0 || it.Chapter.Body != "" {
				continue
			}
			switch rapid.IntRange(0, 3).Draw(t, "legacyKind") {
			case 0:
				it.MediaType = "application/x-dtbook+xml"
				var sb strings.Builder
				sb.WriteString("<?xml version=\"1.0\" encoding=\"UTF-8\"?>\n<dtbook xmlns=\"http://www.daisy.org/z3986/2005/dtbook/\" version=\"2005-3\" xml:lang=\"en\">\n<book><bodymatter><level1>\n")
				if it.Chapter.Heading != "" {
					sb.WriteString("<h1>" + it.Chapter.Heading + "</h1>\n")
				}
				for _, p := range it.Chapter.Paras {
					if p != "" {
						sb.WriteString("<p>" + p + "</p>\n")
					}
				}
				sb.WriteString("</level1></bodymatter></book>\n</dtbook>\n")
				it.Data = []byte(sb.String())
			case 1:
				it.MediaType = "text/x-oeb1-document"
				var sb strings.Builder
				sb.WriteString("<?xml version=\"1.0\"?>\n<!DOCTYPE html PUBLIC \"+//ISBN 0-9673008-1-9//DTD OEB 1.2 Document//EN\" \"http://openebook.org/dtds/oeb-1.2/oebdoc12.dtd\">\n<html><head><title>t</title></head><body>\n")
				if it.Chapter.Heading != "" {
					sb.WriteString("<h1>" + it.Chapter.Heading + "</h1>\n")
				}
				for _, p := range it.Chapter.Paras {
					if p != "" {
						sb.WriteString("<p>" + p + "</p>\n")
					}
				}
				sb.WriteString("</body></html>\n")
				it.Data = []byte(sb.String())
			}
		}
	}
	// members of the same file name in another directory (an older copy of a chapter left in the archive): a part
	// is the member its resolved path names, never another one that merely has the same file name
	if rapid.IntRange(0, 2).Draw(t, "sameNameElsewhere") == 0 {
		for _, sp := range b.Spine {
			it := b.Items[sp.Item]
			if it.Role != "" || rapid.IntRange(0, 1).Draw(t, "twinOf") == 0 {
				continue
			}
			zn := b.ZipName(sp.Item)
			base := zn[strings.LastIndex(zn, "/")+1:]
			dir := rapid.SampledFrom([]string{"0-old/", "OEBPS/backup/", "zz/"}).Draw(t, "twinDir")
			if dir+base == zn {
				continue
			}
			b.Decoys = append(b.Decoys, epubw.File{Path: dir + base, Data: epubw.Chapter{Heading: k.next(), Paras: []string{k.next()}}.XHTML(b.Version)})
		}
	}
	// a second rendition: its own package document and chapters below alt/, listed as a later rootfile. The default
	// rendition is the first package rootfile; nothing of the other rendition is part of the document.
	if rapid.IntRange(0, 4).Draw(t, "altRendition") == 0 {
		alt := epubw.Book{Version: b.Version, OPFPath: "alt/" + rapid.SampledFrom([]string{"package.opf", "content.opf", "a.opf"}).Draw(t, "altOPF"),
			Title: "Alt", Language: "en", Identifier: "urn:uuid:alt"}
		for i, n := 0, rapid.IntRange(1, 3).Draw(t, "altChapters"); i < n; i++ {
			alt.Items = append(alt.Items, epubw.Item{ID: fmt.Sprintf("alt%d", i), Path: fmt.Sprintf("c%d.xhtml", i),
				Chapter: epubw.Chapter{Heading: k.next(), Paras: []string{k.next()}}})
			alt.Spine = append(alt.Spine, epubw.SpineRef{Item: i})
		}
		if ms, err := alt.Members(); err == nil {
			for _, m := range ms {
				if strings.HasPrefix(m.Name, "alt/") {
					b.Decoys = append(b.Decoys, epubw.File{Path: m.Name, Data: m.Data})
				}
			}
			b.Opt.AltPackages = append(b.Opt.AltPackages, alt.OPFPath)
		}
	}
	return ECase{b}
}

func metaEPUB(c ECase) vr.Meta {
	b := c.Book
	_, _, files := epubParts(b)
	ms, _ := b.Members()
	nd, zd := orderClasses(files, ms)
	lab := orderLabels("epub", nd, zd)
	lab = append(lab, "epub:version="+b.Version, "epub:opf="+b.OPFPath, fmt.Sprintf("epub:spine=%d", len(b.Spine)))
	flags := map[string]bool{}
	inSpine := map[int]bool{}
	for _, s := range b.Spine {
		inSpine[s.Item] = true
		flags["epub:non-linear-item"] = flags["epub:non-linear-item"] || s.Linear == "no"
		flags["epub:missing-file"] = flags["epub:missing-file"] || b.Items[s.Item].Missing
		flags["epub:nav-in-spine"] = flags["epub:nav-in-spine"] || b.Items[s.Item].Role == "nav"
	}
	for i, it := range b.Items {
		if !inSpine[i] {
			if it.Role == "" && it.MediaTypeOf() == "application/xhtml+xml" {
				flags["epub:manifest-item-outside-spine"] = true
			}
			continue
		}
		h := b.Href(i)
		flags["epub:href-percent-encoded"] = flags["epub:href-percent-encoded"] || strings.Contains(h, "%")
		flags["epub:href-blank"] = flags["epub:href-blank"] || strings.Contains(it.Path, " ")
		flags["epub:href-non-ascii"] = flags["epub:href-non-ascii"] || strings.IndexFunc(it.Path, func(r rune) bool { return r > 127 }) >= 0
		flags["epub:href-plus"] = flags["epub:href-plus"] || strings.Contains(it.Path, "+")
		flags["epub:href-subfolder"] = flags["epub:href-subfolder"] || strings.Contains(it.Path, "/")
		flags["epub:href-dotdot"] = flags["epub:href-dotdot"] || strings.HasPrefix(it.Path, "../")
	}
	for _, it := range b.Items {
		flags["epub:has-nav"] = flags["epub:has-nav"] || it.Role == "nav"
		flags["epub:dtbook-or-oeb1-in-spine"] = flags["epub:dtbook-or-oeb1-in-spine"] || it.MediaType == "application/x-dtbook+xml" || it.MediaType == "text/x-oeb1-document"
		flags["epub:has-ncx"] = flags["epub:has-ncx"] || it.Role == "ncx"
	}
	flags["epub:decoy-files"] = len(b.Decoys) > 0
	flags["epub:second-rendition"] = len(b.Opt.AltPackages) > 0
	for f, on := range flags {
		if on {
			lab = append(lab, f)
		}
	}
	sort.Strings(lab)
	return vr.Meta{FP: fmt.Sprintf("%+v", b), NonTrivial: nd && zd, Labels: lab}
}

func TestEPUBOrder(t *testing.T) {
	vr.Prop(t, "epub", vr.N(2500, 30000), genEPUB, metaEPUB, checkEPUB)
}
