// C17 — Spreadsheet cells land at their addressed grid position.
//
// Generator: workbooks from the independent writer gen/xlsxw (1–4 sheets, sparse
// addressed cells over A..ZZ x 1..200, every cell kind, rich-text shared
// strings with phonetic runs, non-overlapping merges, shuffled <row>/<c> order,
// spelling variants). Oracle: the logical model the package was written from.
// Four views are compared with the model, address by address and in both
// directions (nothing missing, nothing invented, nothing moved):
// xlsx.Sheet.Cell, tab-separated Text(), the Markdown table (read with
// goldmark) and the Document() table. Plus the exhaustive A1 codec sub-space.
package c17

import (
	"fmt"
	"hash/crc32"
	"os"
	"path/filepath"
	"sort"
	"strings"
	"testing"

	"github.com/tsawler/tabula"
	"github.com/tsawler/tabula/model"
	"github.com/tsawler/tabula/xlsx"
	"pgregory.net/rapid"

	"verif/harness/gen/xlsxw"
	"verif/harness/oracle/mdparse"
	"verif/harness/vr"
)

func TestMain(m *testing.M) { vr.Main(m) }

// Case is one generated workbook. Everything the oracle needs is the model.
type Case struct {
	WB xlsxw.Workbook `json:"wb"`
}

// ---------------------------------------------------------------------------
// helpers

func withFile(ext string, data []byte, fn func(path string) error) error {
	dir, err := os.MkdirTemp("", "c17-")
	if err != nil {
		return fmt.Errorf("INFRA: %v", err)
	}
	defer os.RemoveAll(dir)
	p := filepath.Join(dir, "case"+ext)
	if err := os.WriteFile(p, data, 0o644); err != nil {
		return fmt.Errorf("INFRA: %v", err)
	}
	return fn(p)
}

type key = [2]int

func bounds(g map[key]string) (minR, maxR, minC, maxC int) {
	first := true
	for k := range g {
		if first {
			minR, maxR, minC, maxC = k[0], k[0], k[1], k[1]
			first = false
			continue
		}
		minR, maxR = min(minR, k[0]), max(maxR, k[0])
		minC, maxC = min(minC, k[1]), max(maxC, k[1])
	}
	return
}

// mdSafe: the string has no character with a meaning in Markdown inline
// syntax or in XML; only such workbooks are judged through the Markdown view
// (escaping of special characters belongs to C15).
func mdSafe(s string) bool {
	for _, r := range s {
		if strings.ContainsRune("&<>\"'*_`[]~\\#!{}$^@:|", r) || r > 0xFFFF {
			return false
		}
	}
	return true
}

func workbookMdSafe(w xlsxw.Workbook) bool {
	for _, s := range w.Sheets {
		for _, c := range s.Cells {
			// error codes contain # ! ? / which are inert inside a table cell
			if c.Kind != xlsxw.Error && !mdSafe(c.Display()) {
				return false
			}
		}
	}
	return true
}

// matchGrid compares a rectangular rendering (Markdown or Document table) with
// the model. The statement fixes rows and columns, not where the rectangle
// starts, so two placements are accepted: trimmed to the used range (offset =
// first used row/column) or anchored at A1; rows and columns independently.
func matchGrid(rows [][]string, g map[key]string, norm func(string) string) error {
	minR, maxR, minC, maxC := bounds(g)
	var first error
	for _, r0 := range []int{minR, 0} {
		for _, c0 := range []int{minC, 0} {
			err := func() error {
				if len(rows) != maxR-r0+1 {
					return fmt.Errorf("table has %d rows, want %d (rows %d..%d)", len(rows), maxR-r0+1, r0+1, maxR+1)
				}
				for i, row := range rows {
					if len(row) != maxC-c0+1 {
						return fmt.Errorf("table row %d has %d cells, want %d (columns %s..%s)", i, len(row), maxC-c0+1, xlsxw.ColName(c0), xlsxw.ColName(maxC))
					}
					for j, got := range row {
						want := g[key{i + r0, j + c0}]
						if norm(got) != norm(want) {
							return fmt.Errorf("cell %s: got %q, want %q", xlsxw.Ref(j+c0, i+r0), got, want)
						}
					}
				}
				return nil
			}()
			if err == nil {
				return nil
			}
			if first == nil {
				first = err
			}
		}
	}
	return first
}

// checkBlock compares the lines of one sheet block with the model: line r,
// field c is the displayed value of (r,c) or empty.
func checkBlock(lines []string, g map[key]string) error {
	for r, line := range lines {
		fields := strings.Split(line, "\t")
		for c, f := range fields {
			if want := g[key{r, c}]; f != want {
				return fmt.Errorf("line %d field %d (%s): got %q, want %q", r+1, c+1, xlsxw.Ref(c, r), f, want)
			}
		}
		for k, v := range g {
			if k[0] == r && k[1] >= len(fields) {
				return fmt.Errorf("line %d has %d fields, value %q of %s is missing", r+1, len(fields), v, xlsxw.Ref(k[1], k[0]))
			}
		}
	}
	for k, v := range g {
		if k[0] >= len(lines) {
			return fmt.Errorf("block has %d lines, value %q of %s is missing", len(lines), v, xlsxw.Ref(k[1], k[0]))
		}
	}
	return nil
}

// checkTSV locates the per-sheet blocks of Text(). Blocks are separated by one
// empty line. A block has one line per row; how many trailing empty rows a
// block shows is not fixed by the statement, so every count between "up to the
// last value" and "up to the last <row> element" is accepted.
func checkTSV(text string, sheets []xlsxw.Sheet) error {
	lines := strings.Split(text, "\n")
	for len(lines) > 0 && lines[len(lines)-1] == "" {
		lines = lines[:len(lines)-1]
	}
	var rec func(si, pos int) error
	rec = func(si, pos int) error {
		g := sheets[si].Grid()
		_, maxR, _, _ := bounds(g)
		need, decl := maxR+1, max(sheets[si].DeclaredRows(), maxR+1)
		var first error
		for R := decl; R >= need; R-- {
			var err error
			switch {
			case pos+R > len(lines):
				err = fmt.Errorf("sheet %d (%q): text ends after %d lines of the block, %d expected", si, sheets[si].Name, len(lines)-pos, R)
			default:
				err = checkBlock(lines[pos:pos+R], g)
				if err != nil {
					err = fmt.Errorf("sheet %d (%q): %v", si, sheets[si].Name, err)
				}
			}
			if err == nil {
				if si == len(sheets)-1 {
					if pos+R == len(lines) {
						return nil
					}
					err = fmt.Errorf("sheet %d (%q): %d unexpected lines after the block, first %q", si, sheets[si].Name, len(lines)-pos-R, lines[pos+R])
				} else if pos+R < len(lines) && lines[pos+R] == "" {
					if err = rec(si+1, pos+R+1); err == nil {
						return nil
					}
				} else {
					err = fmt.Errorf("sheet %d (%q): no empty separator line after %d rows", si, sheets[si].Name, R)
				}
			}
			if first == nil {
				first = err
			}
		}
		return first
	}
	return rec(0, 0)
}

// ---------------------------------------------------------------------------
// oracle

func checkCase(c Case) error {
	data, err := c.WB.Bytes()
	if err != nil {
		return fmt.Errorf("INFRA: writer rejected its own model: %v", err)
	}
	return withFile(".xlsx", data, func(path string) error {
		sheets := c.WB.Sheets
		// (a) the sheet grid
		r, err := xlsx.Open(path)
		if err != nil {
			return fmt.Errorf("xlsx.Open failed on a conforming workbook: %v", err)
		}
		defer r.Close()
		if r.SheetCount() != len(sheets) {
			return fmt.Errorf("SheetCount = %d, want %d", r.SheetCount(), len(sheets))
		}
		for i, s := range sheets {
			sh, err := r.Sheet(i)
			if err != nil {
				return fmt.Errorf("Sheet(%d): %v", i, err)
			}
			if sh.Name != s.Name {
				return fmt.Errorf("sheet %d is %q, want %q", i, sh.Name, s.Name)
			}
			if byName, err := r.SheetByName(s.Name); err != nil || byName != sh {
				return fmt.Errorf("SheetByName(%q) is not Sheet(%d) (err %v)", s.Name, i, err)
			}
			g := s.Grid()
			// (a') Tables(): header row + data rows are the same rectangle
			if tb := r.Tables(); len(tb) != len(sheets) {
				return fmt.Errorf("Tables() has %d entries, %d sheets", len(tb), len(sheets))
			} else if len(g) > 0 {
				rows := append([][]string{tb[i].Headers}, tb[i].Rows...)
				if err := matchGrid(rows, g, func(x string) string { return x }); err != nil {
					return fmt.Errorf("Tables(): sheet %q: %v", s.Name, err)
				}
			}
			for k := range g {
				if k[0] >= sh.RowCount() || k[1] >= sh.ColCount() {
					return fmt.Errorf("grid: sheet %q has a value at %s but reports %d rows x %d columns", s.Name, xlsxw.Ref(k[1], k[0]), sh.RowCount(), sh.ColCount())
				}
			}
			for k, want := range g {
				cell := sh.Cell(k[0], k[1])
				if cell == nil {
					return fmt.Errorf("grid: sheet %q cell %s does not exist, want %q", s.Name, xlsxw.Ref(k[1], k[0]), want)
				}
				if cell.Value != want {
					return fmt.Errorf("grid: sheet %q cell %s = %q, want %q", s.Name, xlsxw.Ref(k[1], k[0]), cell.Value, want)
				}
				if byRef := sh.CellByRef(xlsxw.Ref(k[1], k[0])); byRef != cell {
					return fmt.Errorf("grid: sheet %q CellByRef(%s) and Cell(%d,%d) disagree", s.Name, xlsxw.Ref(k[1], k[0]), k[0], k[1])
				}
			}
			stale := map[key]string{}
			for _, c := range s.Cells {
				if c.Stale {
					stale[key{c.Row, c.Col}] = c.Display()
				}
			}
			for ri, row := range sh.Rows {
				for ci := range row {
					if v := row[ci].Value; v != "" && v == stale[key{ri, ci}] {
						// the stored value of a covered cell may be kept in the grid only if the cell is marked as covered
						if !row[ci].IsMerged || row[ci].IsMergeRoot {
							return fmt.Errorf("grid: sheet %q cell %s holds %q, the undisplayed value of a covered cell of a merged range, and is not marked as covered (IsMerged=%v IsMergeRoot=%v)", s.Name, xlsxw.Ref(ci, ri), v, row[ci].IsMerged, row[ci].IsMergeRoot)
						}
						continue
					}
					if v := row[ci].Value; v != "" && g[key{ri, ci}] != v {
						return fmt.Errorf("grid: sheet %q cell %s = %q, want %q (value at an address the workbook does not fill that way)", s.Name, xlsxw.Ref(ci, ri), v, g[key{ri, ci}])
					}
				}
			}
		}
		// (b) tab-separated text
		text, _, err := tabula.Open(path).Text()
		if err != nil {
			return fmt.Errorf("Text(): %v", err)
		}
		hasEmpty := false
		for _, s := range sheets {
			hasEmpty = hasEmpty || len(s.Cells) == 0
		}
		if hasEmpty {
			// how a sheet without any cell shows in the text is not fixed; the values of the others are all there
			for _, s := range sheets {
				for _, v := range s.Grid() {
					if v != "" && !strings.Contains(text, v) {
						return fmt.Errorf("text: value %q of sheet %q is missing", v, s.Name)
					}
				}
			}
		} else if err := checkTSV(text, sheets); err != nil {
			return fmt.Errorf("text: %v", err)
		}
		// (c) document model
		doc, _, err := tabula.Open(path).Document()
		if err != nil {
			return fmt.Errorf("Document(): %v", err)
		}
		if len(doc.Pages) != len(sheets) {
			return fmt.Errorf("document: %d pages, want %d", len(doc.Pages), len(sheets))
		}
		for i, s := range sheets {
			var tables []*model.Table
			for _, e := range doc.Pages[i].Elements {
				if t, ok := e.(*model.Table); ok {
					tables = append(tables, t)
				}
			}
			if doc.Pages[i].Number != i+1 {
				return fmt.Errorf("document: page %d (sheet %q) carries the number %d", i+1, s.Name, doc.Pages[i].Number)
			}
			if len(s.Cells) == 0 {
				// a sheet without cells is a page without a table (one page per sheet)
				if len(tables) != 0 {
					return fmt.Errorf("document: page %d (sheet %q, no cells) has %d tables", i+1, s.Name, len(tables))
				}
				continue
			}
			if len(tables) != 1 {
				return fmt.Errorf("document: page %d has %d tables, want 1", i+1, len(tables))
			}
			rows := make([][]string, len(tables[0].Rows))
			for ri, row := range tables[0].Rows {
				for _, cell := range row {
					rows[ri] = append(rows[ri], cell.Text)
				}
			}
			if err := matchGrid(rows, s.Grid(), func(x string) string { return x }); err != nil {
				return fmt.Errorf("document: sheet %q: %v", s.Name, err)
			}
		}
		// (d) Markdown table, read by goldmark
		if workbookMdSafe(c.WB) {
			md, _, err := tabula.Open(path).ToMarkdown()
			if err != nil {
				return fmt.Errorf("ToMarkdown(): %v", err)
			}
			var tables [][][]string
			for _, b := range mdparse.Parse(md) {
				if b.Kind == "table" {
					tables = append(tables, b.Rows)
				}
			}
			var filled []xlsxw.Sheet
			for _, s := range sheets {
				if len(s.Cells) > 0 {
					filled = append(filled, s)
				}
			}
			if len(tables) != len(filled) {
				return fmt.Errorf("markdown: %d tables, want %d (sheets with cells)\n%s", len(tables), len(filled), clip(md))
			}
			for i, s := range filled {
				if err := matchGrid(tables[i], s.Grid(), mdparse.Norm); err != nil {
					return fmt.Errorf("markdown: sheet %q: %v", s.Name, err)
				}
			}
		}
		// (s) one reader asked several times, also for a selection of sheets: every answer is a fresh reader's
		// (every eighth workbook: each question costs a reader of its own)
		if crc32.ChecksumIEEE(data)%8 != 0 {
			return nil
		}
		type ask struct {
			name string
			run  func(r *xlsx.Reader) string
		}
		asks := []ask{
			{"Markdown()", func(r *xlsx.Reader) string { s, _ := r.Markdown(); return s }},
			{"Text()", func(r *xlsx.Reader) string { s, _ := r.Text(); return s }},
			{"Tables()", func(r *xlsx.Reader) string { return fmt.Sprintf("%+v", r.Tables()) }},
			{"Document()", func(r *xlsx.Reader) string {
				d, err := r.Document()
				if err != nil || d == nil {
					return fmt.Sprint(err)
				}
				var sb strings.Builder
				for _, pg := range d.Pages {
					fmt.Fprintf(&sb, "page %d\n", pg.Number)
					for _, el := range pg.Elements {
						fmt.Fprintf(&sb, "%T %+v\n", el, el)
					}
				}
				return sb.String()
			}},
		}
		for k := len(sheets) - 1; k >= 0; k-- {
			k := k
			asks = append(asks, ask{fmt.Sprintf("MarkdownWithOptions(Sheets [%d])", k), func(r *xlsx.Reader) string {
				s, _ := r.MarkdownWithOptions(xlsx.ExtractOptions{Sheets: []int{k}})
				return s
			}}, ask{fmt.Sprintf("TextWithOptions(Sheets [%d])", k), func(r *xlsx.Reader) string {
				s, _ := r.TextWithOptions(xlsx.ExtractOptions{Sheets: []int{k}})
				return s
			}})
		}
		alone := make([]string, len(asks))
		for i, a := range asks {
			fr, err := xlsx.Open(path)
			if err != nil {
				return fmt.Errorf("xlsx.Open: %v", err)
			}
			alone[i] = a.run(fr)
			fr.Close()
		}
		shared, err := xlsx.Open(path)
		if err != nil {
			return fmt.Errorf("xlsx.Open: %v", err)
		}
		defer shared.Close()
		// a fixed tour through the questions that meets every one at least twice, in both directions
		var order []int
		for i := range asks {
			order = append(order, i)
		}
		for i := len(asks) - 1; i >= 0; i-- {
			order = append(order, i)
		}
		for step, i := range order {
			if got := asks[i].run(shared); got != alone[i] {
				return fmt.Errorf("one xlsx.Reader, call %d = %s: the answer differs from that of a fresh reader:\n got  %s\n want %s", step+1, asks[i].name, clip(got), clip(alone[i]))
			}
		}
		return nil
	})
}

func clip(s string) string {
	if len(s) > 600 {
		return s[:600] + "…"
	}
	return s
}

func init() { vr.Register("workbook", checkCase) }

// ---------------------------------------------------------------------------
// generator and evidence

func genCase(t *rapid.T) Case {
	cfg := xlsxw.GenConfig{Wide: rapid.IntRange(0, 3).Draw(t, "wideText") == 0}
	w := xlsxw.GenWorkbook(t, cfg)
	// known finding switches (none recorded at the moment; see NOTES.md)
	for i := range w.Sheets {
		w.Sheets[i].OmitRowR = vr.Want("row-without-r", w.Sheets[i].OmitRowR)
	}
	if !vr.Want("sst-renamed", w.Opt.SSTPart != "") {
		w.Opt.SSTPart = ""
	}
	// a sheet without any cell (never the only sheet): still a sheet, a page, and no table
	if len(w.Sheets) >= 2 && rapid.IntRange(0, 4).Draw(t, "emptySheet") == 0 {
		i := rapid.IntRange(0, len(w.Sheets)-1).Draw(t, "emptySheetAt")
		w.Sheets[i].Cells, w.Sheets[i].Merges, w.Sheets[i].EmptyRows, w.Sheets[i].Dimension = nil, nil, nil, ""
	}
	return Case{WB: w}
}

func sheetStats(s xlsxw.Sheet) (multi, gap, merge bool, kinds int) {
	ks := map[xlsxw.Kind]bool{}
	var rows, cols []int
	for _, c := range s.Cells {
		if c.Kind != xlsxw.Blank {
			ks[c.Kind] = true
		}
		multi = multi || c.Col >= 26
		rows, cols = append(rows, c.Row), append(cols, c.Col)
	}
	sort.Ints(rows)
	sort.Ints(cols)
	for _, xs := range [][]int{rows, cols} {
		if len(xs) > 0 && xs[0] >= 2 {
			gap = true
		}
		for i := 1; i < len(xs); i++ {
			if xs[i]-xs[i-1] > 2 {
				gap = true
			}
		}
	}
	return multi, gap, len(s.Merges) > 0, len(ks)
}

func meta(c Case) vr.Meta {
	lab := map[string]bool{fmt.Sprintf("sheets=%d", len(c.WB.Sheets)): true}
	nt := false
	for _, s := range c.WB.Sheets {
		multi, gap, merge, kinds := sheetStats(s)
		if multi && gap && merge && kinds >= 3 {
			nt = true
		}
		if multi {
			lab["multi-letter-column"] = true
		}
		if gap {
			lab["gap>=2"] = true
		}
		if merge {
			lab["merge"] = true
		}
		for _, cell := range s.Cells {
			lab["kind:"+string(cell.Kind)] = true
			if cell.Phonetic != "" {
				lab["phonetic-run"] = true
			}
			if cell.Formula != "" {
				lab["formula"] = true
			}
		}
		// emission order
		rowsSorted, cellsSorted := true, true
		lastRow := map[int]int{}
		prevRow := -1
		seenRow := map[int]bool{}
		for _, cell := range s.Cells {
			if !seenRow[cell.Row] {
				if cell.Row < prevRow {
					rowsSorted = false
				}
				prevRow = max(prevRow, cell.Row)
				seenRow[cell.Row] = true
			}
			if last, ok := lastRow[cell.Row]; ok && cell.Col < last {
				cellsSorted = false
			}
			lastRow[cell.Row] = cell.Col
		}
		if !rowsSorted {
			lab["rows-out-of-order"] = true
		}
		if !cellsSorted {
			lab["cells-out-of-order"] = true
		}
		if len(s.Cells) == 0 {
			lab["sheet-without-cells"] = true
		}
		if s.OmitCellR {
			lab["cells-without-r"] = true
		}
		if len(s.EmptyRows) > 0 {
			lab["empty-row-elements"] = true
		}
		for _, cell := range s.Cells {
			if cell.Stale {
				lab["stale-value-in-covered-cell"] = true
			}
		}
		if s.OmitRowR {
			lab["row-without-r"] = true
		}
		if s.OmitRowR && s.RowRFromCells {
			lab["row-named-by-its-cells"] = true
		}
		if s.Prefix != "" {
			lab["prefixed-namespace"] = true
		}
		switch s.Dimension {
		case "":
			lab["dimension-absent"] = true
		case "A1":
			lab["dimension-stale"] = true
		default:
			lab["dimension-exact"] = true
		}
		if s.AbsTarget {
			lab["absolute-target"] = true
		}
		if !strings.HasPrefix(s.Part, "xl/worksheets/sheet") {
			lab["renamed-part"] = true
		}
	}
	if c.WB.Opt.SSTPart != "" {
		lab["sst-renamed-part"] = true
	}
	if c.WB.Opt.SSTSeed != 0 {
		lab["sst-permuted"] = true
	}
	if workbookMdSafe(c.WB) {
		lab["markdown-judged"] = true
	} else {
		lab["markdown-not-judged(special chars)"] = true
	}
	if nt {
		lab["non-trivial"] = true
	}
	var labels []string
	for l := range lab {
		labels = append(labels, l)
	}
	sort.Strings(labels)
	fp := fmt.Sprintf("%+v", c.WB.Sheets)
	return vr.Meta{FP: fp, NonTrivial: nt, Labels: labels}
}

func TestWorkbooks(t *testing.T) {
	vr.Prop(t, "workbook", vr.N(3000, 50000), genCase, meta, checkCase)
}

// ---------------------------------------------------------------------------
// A1 codec: exhaustive sub-space

// CodecCase is one (column,row) pair of the enumerated range.
type CodecCase struct {
	Col int `json:"col"`
	Row int `json:"row"`
}

var codecRows = []int{0, 1, 8, 9, 98, 99, 998, 999, 1048575}

const codecMaxCol = 18277 // ZZZ

func shortlexLess(a, b string) bool {
	if len(a) != len(b) {
		return len(a) < len(b)
	}
	return a < b
}

func checkCodec(c CodecCase) error {
	want := xlsxw.Ref(c.Col, c.Row) // independent implementation of the bijective base-26 numeral
	if got := xlsx.CellRef(c.Col, c.Row); got != want {
		return fmt.Errorf("CellRef(%d,%d) = %q, want %q", c.Col, c.Row, got, want)
	}
	for _, ref := range []string{want, strings.ToLower(want)} {
		col, row, err := xlsx.ParseCellRef(ref)
		if err != nil || col != c.Col || row != c.Row {
			return fmt.Errorf("ParseCellRef(%q) = (%d,%d,%v), want (%d,%d)", ref, col, row, err, c.Col, c.Row)
		}
	}
	letters := xlsx.IndexToColumn(c.Col)
	if letters != xlsxw.ColName(c.Col) {
		return fmt.Errorf("IndexToColumn(%d) = %q, want %q", c.Col, letters, xlsxw.ColName(c.Col))
	}
	if back := xlsx.ColumnToIndex(letters); back != c.Col {
		return fmt.Errorf("ColumnToIndex(IndexToColumn(%d)) = %d", c.Col, back)
	}
	if back := xlsx.ColumnToIndex(strings.ToLower(letters)); back != c.Col {
		return fmt.Errorf("ColumnToIndex(%q) = %d, want %d", strings.ToLower(letters), back, c.Col)
	}
	if next := xlsx.IndexToColumn(c.Col + 1); !shortlexLess(letters, next) {
		return fmt.Errorf("IndexToColumn not strictly increasing in shortlex order: %d -> %q, %d -> %q", c.Col, letters, c.Col+1, next)
	}
	return nil
}

func init() { vr.Register("codec", checkCodec) }

func TestCodecExhaustive(t *testing.T) {
	i := 0
	for col := 0; col <= codecMaxCol; col++ {
		for _, row := range codecRows {
			i++
			if !vr.Mine(col) {
				continue
			}
			c := CodecCase{col, row}
			m := vr.Meta{FP: fmt.Sprintf("%d,%d", col, row), NonTrivial: col >= 26, Labels: []string{fmt.Sprintf("codec:letters=%d", len(xlsxw.ColName(col)))}}
			if !vr.One(t, "codec", c, m, checkCodec) {
				return
			}
		}
	}
	vr.Exhaustive(fmt.Sprintf("A1 codec: columns 0..%d (A..ZZZ) x rows %v, upper and lower case (%d pairs)", codecMaxCol, codecRows, i))
}

// MalformedCase is a string that is not an A1 reference.
type MalformedCase struct {
	Ref string `json:"ref"`
}

// Only strings that no reading of "A1 notation" admits: missing part, row 0 or
// negative, digits before letters, trailing letters, inner blanks, ranges,
// non-Latin letters. Spellings such as "A01" or "A+1" are not judged.
var malformed = []string{"", "A", "ZZ", "7", "A0", "A-1", "1A", "A1B", "A 1", " A1", "A1 ", "A1:B2", "Ä1", "A1.5", "#REF!", "A$1", "R1C1C"}

func checkMalformed(c MalformedCase) error {
	if col, row, err := xlsx.ParseCellRef(c.Ref); err == nil {
		return fmt.Errorf("ParseCellRef(%q) accepted a malformed reference as (%d,%d)", c.Ref, col, row)
	}
	return nil
}

func init() { vr.Register("malformed", checkMalformed) }

func TestCodecMalformed(t *testing.T) {
	for i, s := range malformed {
		if !vr.Mine(i) {
			continue
		}
		vr.One(t, "malformed", MalformedCase{s}, vr.Meta{FP: s, NonTrivial: true, Labels: []string{"codec:malformed"}}, checkMalformed)
	}
}

// RangeCase is a pair of corners for ParseRangeRef.
type RangeCase struct {
	C1, R1, C2, R2 int
	Lower          bool
}

func checkRange(c RangeCase) error {
	ref := xlsxw.Ref(c.C1, c.R1) + ":" + xlsxw.Ref(c.C2, c.R2)
	if c.Lower {
		ref = strings.ToLower(ref)
	}
	c1, r1, c2, r2, err := xlsx.ParseRangeRef(ref)
	if err != nil || c1 != c.C1 || r1 != c.R1 || c2 != c.C2 || r2 != c.R2 {
		return fmt.Errorf("ParseRangeRef(%q) = (%d,%d,%d,%d,%v), want (%d,%d,%d,%d)", ref, c1, r1, c2, r2, err, c.C1, c.R1, c.C2, c.R2)
	}
	return nil
}

func init() { vr.Register("range", checkRange) }

func TestRangeCodec(t *testing.T) {
	gen := func(t *rapid.T) RangeCase {
		col := rapid.OneOf(rapid.IntRange(0, 60), rapid.IntRange(600, 800), rapid.IntRange(0, 16383))
		row := rapid.OneOf(rapid.IntRange(0, 120), rapid.IntRange(0, 1048575))
		return RangeCase{C1: col.Draw(t, "c1"), R1: row.Draw(t, "r1"), C2: col.Draw(t, "c2"), R2: row.Draw(t, "r2"), Lower: rapid.Bool().Draw(t, "lower")}
	}
	m := func(c RangeCase) vr.Meta {
		return vr.Meta{FP: fmt.Sprint(c), NonTrivial: c.C1 >= 26 || c.C2 >= 26, Labels: []string{"codec:range"}}
	}
	vr.Prop(t, "range", vr.N(4000, 40000), gen, m, checkRange)
}
