package c15

// Layout level of C15: the headings layout analysis finds on a page are ranked by font size, and
// layout.Heading.ToMarkdown writes them as ATX headings. A page may use more heading sizes than Markdown has levels:
// whatever the number of sizes, every heading must come out as a heading goldmark reads (1-6 '#'), with its text,
// and a larger size never gets a deeper level than a smaller one.

import (
	"fmt"
	"strings"
	"testing"

	"github.com/tsawler/tabula/layout"
	"github.com/tsawler/tabula/model"
	"pgregory.net/rapid"

	"verif/harness/oracle/mdparse"
	"verif/harness/vr"
)

type LayoutMDCase struct {
	Sizes []float64 `json:"sizes"` // font size of each heading in page order; the body is 10 pt
}

func init() { vr.Register("layoutmd", checkLayoutMD) }

func checkLayoutMD(c LayoutMDCase) error {
	var paras []layout.Paragraph
	y := 20000.0
	add := func(text string, size float64, nLines int) {
		var lines []layout.Line
		for i := 0; i < nLines; i++ {
			lines = append(lines, layout.Line{Text: text, BBox: model.BBox{X: 72, Y: y, Width: 400, Height: size}, Height: size})
			y -= size * 1.2
		}
		paras = append(paras, layout.Paragraph{Text: text, Lines: lines, Index: len(paras), AverageFontSize: size, LeftMargin: 72,
			BBox: model.BBox{X: 72, Y: y, Width: 400, Height: size * float64(nLines)}})
		y -= 10
	}
	body := strings.Repeat("plain body text that goes on for quite a while ", 6)
	for i, s := range c.Sizes {
		add(fmt.Sprintf("Heading number %d", i+1), s, 1)
		add(body, 10, 5)
	}
	hl := layout.NewHeadingDetector().DetectFromParagraphs(paras, 612, 20100)
	if hl == nil {
		return nil
	}
	for i := range hl.Headings {
		h := &hl.Headings[i]
		md := h.ToMarkdown()
		blocks := mdparse.Parse(md)
		if len(blocks) != 1 || blocks[0].Kind != "heading" || blocks[0].Level < 1 || blocks[0].Level > 6 {
			return fmt.Errorf("heading %q (%.1f pt, one of %d heading sizes) is written as %q, which a GFM parser does not read as one heading of level 1-6 (reads %+v)", h.Text, h.FontSize, distinct(c.Sizes), md, blocks)
		}
		if mdparse.Norm(blocks[0].Text) != mdparse.Norm(h.Text) {
			return fmt.Errorf("heading %q is written as %q: text %q", h.Text, md, blocks[0].Text)
		}
		if int(h.Level) != blocks[0].Level {
			return fmt.Errorf("heading %q has Level %d but is written as %q", h.Text, int(h.Level), md)
		}
		for j := range hl.Headings {
			g := &hl.Headings[j]
			if g.FontSize > h.FontSize && g.Level > h.Level {
				return fmt.Errorf("heading %q (%.1f pt) has level %d, deeper than level %d of the smaller heading %q (%.1f pt)", g.Text, g.FontSize, int(g.Level), int(h.Level), h.Text, h.FontSize)
			}
		}
	}
	return nil
}

func distinct(xs []float64) int {
	m := map[float64]bool{}
	for _, x := range xs {
		m[x] = true
	}
	return len(m)
}

func genLayoutMD(t *rapid.T) LayoutMDCase {
	pool := []float64{36, 32, 30, 27, 24, 22, 21, 19, 18, 17, 16, 15, 14, 13.5}
	n := rapid.IntRange(1, 12).Draw(t, "headings")
	var c LayoutMDCase
	for i := 0; i < n; i++ {
		c.Sizes = append(c.Sizes, rapid.SampledFrom(pool).Draw(t, "size"))
	}
	return c
}

func metaLayoutMD(c LayoutMDCase) vr.Meta {
	l := []string{"layoutmd", fmt.Sprintf("layoutmd:sizes:%d", distinct(c.Sizes))}
	return vr.Meta{FP: fmt.Sprint(c.Sizes), NonTrivial: distinct(c.Sizes) > 6, Labels: l}
}

func TestLayoutHeadings(t *testing.T) {
	vr.Prop(t, "layoutmd", vr.N(1500, 20000), genLayoutMD, metaLayoutMD, checkLayoutMD)
}
