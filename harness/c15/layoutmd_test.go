package c15

// Layout level of C15: the headings layout analysis finds on a page are ranked by font size, and
// layout.Heading.ToMarkdown writes them as ATX headings. A page may use more heading sizes than Markdown has levels:
// whatever the number of sizes, every heading must come out as a heading goldmark reads (1-6 '#'), with its text,
// and a larger size never gets a deeper level than a smaller one.

import (
	"fmt"
	"strings"
	"testing"

	"github.com/tsawler/tabula/layout"
	"github.com/tsawler/tabula/model"
	"pgregory.net/rapid"

	"verif/harness/oracle/mdparse"
	"verif/harness/vr"
)

type LayoutMDCase struct {
	Sizes []float64 `json:"sizes"` // font size of each heading in page order; the body is 10 pt
}

func init() { vr.Register("layoutmd", checkLayoutMD) }

func checkLayoutMD(c LayoutMDCase) error {
	var paras []layout.Paragraph
	y := 20000.0
	add := func(text string, size float64, nLines int) {
		var lines []layout.Line
		for i := 0; i < nLines; i++ {
			lines = append(lines, layout.Line{Text: text, BBox: model.BBox{X: 72, Y: y, Width: 400, Height: size}, Height: size})
			y -= size * 1.2
		}
		paras = append(paras, layout.Paragraph{Text: text, Lines: lines, Index: len(paras), AverageFontSize: size, LeftMargin: 72,
			BBox: model.BBox{X: 72, Y: y, Width: 400, Height: size * float64(nLines)}})
		y -= 10
	}
	body := strings.Repeat("plain body text that goes on for quite a while ", 6)
	for i, s := range c.Sizes {
		add(fmt.Sprintf("Heading number %d", i+1), s, 1)
		add(body, 10, 5)
	}
	hl := layout.NewHeadingDetector().DetectFromParagraphs(paras, 612, 20100)
	if hl == nil {
		return nil
	}
	for i := range hl.Headings {
		h := &hl.Headings[i]
		md := h.ToMarkdown()
		blocks := mdparse.Parse(md)
		if len(blocks) != 1 || blocks[0].Kind != "heading" || blocks[0].Level < 1 || blocks[0].Level > 6 {
			return fmt.Errorf("heading %q (%.1f pt, one of %d heading sizes) is written as %q, which a GFM parser does not read as one heading of level 1-6 (reads %+v)", h.Text, h.FontSize, distinct(c.Sizes), md, blocks)
		}
		if mdparse.Norm(blocks[0].Text) != mdparse.Norm(h.Text) {
			return fmt.Errorf("heading %q is written as %q: text %q", h.Text, md, blocks[0].Text)
		}
		if int(h.Level) != blocks[0].Level {
			return fmt.Errorf("heading %q has Level %d but is written as %q", h.Text, int(h.Level), md)
		}
		for j := range hl.Headings {
			g := &hl.Headings[j]
			if g.FontSize > h.FontSize && g.Level > h.Level {
				return fmt.Errorf("heading %q (%.1f pt) has level %d, deeper than level %d of the smaller heading %q (%.1f pt)", g.Text, g.FontSize, int(g.Level), int(h.Level), h.Text, h.FontSize)
			}
		}
	}
	return nil
}

func distinct(xs []float64) int {
	m := map[float64]bool{}
	for _, x := range xs {
		m[x] = true
	}
	return len(m)
}

func genLayoutMD(t *rapid.T) LayoutMDCase {
	pool := []float64{36, 32, 30, 27, 24, 22, 21, 19, 18, 17, 16, 15, 14, 13.5}
	n := rapid.IntRange(1, 12).Draw(t, "headings")
	var c LayoutMDCase
	for i := 0; i < n; i++ {
		c.Sizes = append(c.Sizes, rapid.SampledFrom(pool).Draw(t, "size"))
	}
	return c
}

func metaLayoutMD(c LayoutMDCase) vr.Meta {
	l := []string{"layoutmd", fmt.Sprintf("layoutmd:sizes:%d", distinct(c.Sizes))}
	return vr.Meta{FP: fmt.Sprint(c.Sizes), NonTrivial: distinct(c.Sizes) > 6, Labels: l}
}

func TestLayoutHeadings(t *testing.T) {
	vr.Prop(t, "layoutmd", vr.N(1500, 20000), genLayoutMD, metaLayoutMD, checkLayoutMD)
}

// Lists found by layout analysis: bulleted paragraphs whose left margin grows by 15 pt (the documented IndentThreshold) per level, deepening one
// level at a time (up to four levels). layout.List.ToMarkdown must show every item, in order, at its depth.

type LayoutListCase struct {
	Depths []int `json:"depths"` // depth of each item, first 0, deepening by at most one
}

func init() { vr.Register("layoutlist", checkLayoutList) }

func checkLayoutList(c LayoutListCase) error {
	var paras []layout.Paragraph
	y := 700.0
	for i, d := range c.Depths {
		x := 72 + 15*float64(d) // IndentThreshold: "the minimum indentation increase to consider nested", 15 pt
		paras = append(paras, layout.Paragraph{Text: fmt.Sprintf("• item%dz here", i), BBox: model.BBox{X: x, Y: y, Width: 300 - x, Height: 14},
			LeftMargin: x, AverageFontSize: 12})
		y -= 20
	}
	res := layout.NewListDetector().DetectFromParagraphs(paras, 612, 792)
	if res == nil || res.ListCount() != 1 {
		n := 0
		if res != nil {
			n = res.ListCount()
		}
		return fmt.Errorf("%d lists detected in %d consecutive bulleted paragraphs (depths %v), want 1", n, len(c.Depths), c.Depths)
	}
	list := res.GetList(0)
	all := list.GetAllItems()
	if len(all) != len(c.Depths) {
		return fmt.Errorf("GetAllItems: %d items, the list has %d (depths %v)", len(all), len(c.Depths), c.Depths)
	}
	for i, it := range all {
		if want := fmt.Sprintf("item%dz here", i); mdparse.Norm(it.Text) != want || it.Level != c.Depths[i] {
			return fmt.Errorf("GetAllItems: item %d is %q at level %d, want %q at level %d (depths %v)", i, it.Text, it.Level, want, c.Depths[i], c.Depths)
		}
	}
	md := list.ToMarkdown()
	var items []mdparse.Block
	for _, b := range mdparse.Parse(md) {
		if b.Kind == "item" {
			items = append(items, b)
		}
	}
	if len(items) != len(c.Depths) {
		return fmt.Errorf("List.ToMarkdown: a GFM parser reads %d list items, the list has %d (depths %v):\n%s", len(items), len(c.Depths), c.Depths, md)
	}
	for i, b := range items {
		if want := fmt.Sprintf("item%dz here", i); mdparse.Norm(b.Text) != want || b.Level != c.Depths[i] {
			return fmt.Errorf("List.ToMarkdown: item %d reads %q at depth %d, want %q at depth %d:\n%s", i, b.Text, b.Level, want, c.Depths[i], md)
		}
	}
	return nil
}

func genLayoutList(t *rapid.T) LayoutListCase {
	n := rapid.IntRange(2, 9).Draw(t, "items")
	c := LayoutListCase{Depths: []int{0}}
	for i := 1; i < n; i++ {
		prev := c.Depths[i-1]
		hi := prev + 1
		if hi > 3 {
			hi = 3
		}
		c.Depths = append(c.Depths, rapid.IntRange(0, hi).Draw(t, "depth"))
	}
	return c
}

func metaLayoutList(c LayoutListCase) vr.Meta {
	max := 0
	for _, d := range c.Depths {
		if d > max {
			max = d
		}
	}
	return vr.Meta{FP: fmt.Sprint(c.Depths), NonTrivial: max >= 2, Labels: []string{"layoutlist", fmt.Sprintf("layoutlist:depth:%d", max)}}
}

func TestLayoutLists(t *testing.T) {
	vr.Prop(t, "layoutlist", vr.N(1500, 20000), genLayoutList, metaLayoutList, checkLayoutList)
}
