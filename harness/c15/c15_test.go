// C15 — Markdown output keeps table, heading and list structure intact.
//
// Generator: a small structural document (headings of all levels, paragraphs,
// nested ordered/unordered list items, tables whose cells contain '|', line
// breaks, surrounding blanks or nothing) rendered through each Markdown
// writer of tabula: model.Table.ToMarkdown, the rag chunk collection (the PDF
// pipeline's writer), DOCX, ODT, XLSX, PPTX and HTML (via the independent
// package writers), under the Markdown options (front matter, table of
// contents, heading offset -2..+7, maximum level 1..6).
//
// Oracle: the output is read back with goldmark's GitHub-flavoured-Markdown
// parser (oracle/mdparse): every table has the same rows x columns of cell
// texts, every heading is an ATX heading of level clamp(src+offset, 1,
// min(max,6)), list items keep order, depth and kind, every body token is present.
package c15

import (
	"encoding/json"
	"fmt"
	"html"
	"os"
	"path/filepath"
	"regexp"
	"sort"
	"strings"
	"testing"

	"github.com/tsawler/tabula"
	"github.com/tsawler/tabula/model"
	"github.com/tsawler/tabula/rag"
	"pgregory.net/rapid"

	"verif/harness/gen/docxw"
	"verif/harness/gen/epubw"
	"verif/harness/gen/odtw"
	"verif/harness/gen/pptxw"
	"verif/harness/gen/wpmodel"
	"verif/harness/gen/xlsxw"
	"verif/harness/oracle/mdparse"
	"verif/harness/vr"
)

var tmpDir string

func TestMain(m *testing.M) {
	d, err := os.MkdirTemp("", "verif-c15-")
	if err != nil {
		fmt.Println("INFRA:", err)
		os.Exit(3)
	}
	tmpDir = d
	vr.AtExit(func() { os.RemoveAll(d) })
	vr.Main(m)
}

// ---------------------------------------------------------------------------
// case model

type Blk struct {
	Kind    string     `json:"kind"`            // heading | para | item | table
	Level   int        `json:"level,omitempty"` // heading: 1..6, item: depth 0..2
	Ordered bool       `json:"ordered,omitempty"`
	Text    string     `json:"text,omitempty"`
	Grid    [][]string `json:"grid,omitempty"` // table: rectangular, >= 2 rows, >= 1 column
	// Wrap (HTML, EPUB): the table stands alone inside a wrapper - 1: <div class="table-responsive">, 2: the same
	// with an inline caption in front (<span>, empty), 3: <figure>, 4: <section><div>
	Wrap int `json:"wrap,omitempty"`
	// How (docx, odt headings): how the heading states its level (wpmodel.How*; "" = the built-in style)
	How string `json:"how,omitempty"`
	// Caption (HTML, EPUB tables): text of a <caption>; body text like any other
	Caption string `json:"caption,omitempty"`
	// SpanFirst (HTML, EPUB tables): the first row is one cell with colspan = number of columns (Grid[0][1:] are empty)
	SpanFirst bool `json:"span_first,omitempty"`
	// Merge (xlsx tables): one merged region {r1,c1,r2,c2} of the grid; the cells it covers besides its root are empty
	Merge []int `json:"merge,omitempty"`
	// Bare (HTML, EPUB list items): 4 = the blank after the second of three words stands inside a <b> element.
	// Bare (HTML, EPUB paragraphs): 1 = the text stands directly in its container, without <p>; 2 = inside a <span>;
	// 3 = partly inside an <a>. The container is <body>, or the <div> around everything when Case.BodyDiv is set
	Bare int `json:"bare,omitempty"`
}

type Opts struct {
	Meta   bool `json:"meta,omitempty"`
	TOC    bool `json:"toc,omitempty"`
	Offset int  `json:"offset,omitempty"`
	Max    int  `json:"max"` // 1..6
}

type Case struct {
	Target string `json:"target"` // modeltable | rag | docx | odt | xlsx | pptx | html
	Blocks []Blk  `json:"blocks"`
	Opts   Opts   `json:"opts"`
	// BodyDiv (HTML): all blocks stand inside one <div> (1) or <section><div> (2)
	BodyDiv int `json:"body_div,omitempty"`
	// NestWrap (HTML): every nested list stands inside a wrapper within its item - 1: <div>, 2: <blockquote>
	NestWrap int `json:"nest_wrap,omitempty"`
}

func (o Opts) rag() rag.MarkdownOptions {
	m := rag.DefaultMarkdownOptions()
	m.IncludeMetadata, m.IncludeTableOfContents = o.Meta, o.TOC
	m.HeadingLevelOffset, m.MaxHeadingLevel = o.Offset, o.Max
	return m
}

func (o Opts) level(src int) int {
	l := src + o.Offset
	if l < 1 {
		l = 1
	}
	if l > o.Max {
		l = o.Max
	}
	if l > 6 {
		l = 6
	}
	return l
}

// ---------------------------------------------------------------------------
// renderers: case -> Markdown produced by tabula

func wpPara(text string) wpmodel.Para {
	// a cell/paragraph text may hold line breaks and surrounding blanks
	var items []wpmodel.Inline
	for i, line := range strings.Split(text, "\n") {
		if i > 0 {
			items = append(items, wpmodel.Inline{Kind: wpmodel.KBreak})
		}
		lead := len(line) - len(strings.TrimLeft(line, " "))
		trail := len(line) - len(strings.TrimRight(line, " "))
		core := strings.TrimSpace(line)
		if core == "" {
			if len(line) > 0 {
				items = append(items, wpmodel.Inline{Kind: wpmodel.KSpace, N: len(line)})
			}
			continue
		}
		if lead > 0 {
			items = append(items, wpmodel.Inline{Kind: wpmodel.KSpace, N: lead})
		}
		items = append(items, wpmodel.Inline{Kind: wpmodel.KText, Text: core})
		if trail > 0 {
			items = append(items, wpmodel.Inline{Kind: wpmodel.KSpace, N: trail})
		}
	}
	if len(items) == 0 {
		return wpmodel.Para{}
	}
	return wpmodel.Para{wpmodel.Run{Items: items}}
}

func wpDoc(c Case) wpmodel.Doc {
	d := wpmodel.Doc{Meta: &wpmodel.Meta{Title: "Title of the document", Author: "An Author"}}
	// eight list definitions: bullet or decimal at each of the three levels (a level's kind is a property of the
	// definition); definition k has a numbered level l when bit l of k is set
	for k := 0; k < 8; k++ {
		kinds := make([]string, 3)
		for l := range kinds {
			kinds[l] = wpmodel.LBullet
			if k>>uint(l)&1 == 1 {
				kinds[l] = wpmodel.LDecimal
			}
		}
		d.Lists = append(d.Lists, wpmodel.ListDef{Kinds: kinds})
	}
	// every run of items is one list: its definition follows from the kind each level shows first (a level that
	// never shows takes the kind of the level above)
	defOf := make([]int, len(c.Blocks))
	for i := 0; i < len(c.Blocks); {
		if c.Blocks[i].Kind != "item" {
			i++
			continue
		}
		j := i
		var known [3]bool
		var ordered [3]bool
		for ; j < len(c.Blocks) && c.Blocks[j].Kind == "item"; j++ {
			if l := c.Blocks[j].Level; !known[l] {
				known[l], ordered[l] = true, c.Blocks[j].Ordered
			}
		}
		def := 0
		for l := 0; l < 3; l++ {
			if !known[l] && l > 0 {
				ordered[l] = ordered[l-1]
			}
			if ordered[l] {
				def |= 1 << uint(l)
			}
		}
		for ; i < j; i++ {
			defOf[i] = def
		}
	}
	for bi, b := range c.Blocks {
		switch b.Kind {
		case "heading":
			d.Blocks = append(d.Blocks, wpmodel.Block{Kind: wpmodel.BHeading, Level: b.Level, How: howOf(b), Runs: wpPara(b.Text)})
		case "para":
			d.Blocks = append(d.Blocks, wpmodel.Block{Kind: wpmodel.BPara, Runs: wpPara(b.Text)})
		case "item":
			d.Blocks = append(d.Blocks, wpmodel.Block{Kind: wpmodel.BItem, List: defOf[bi], Depth: b.Level, Runs: wpPara(b.Text)})
		case "table":
			t := &wpmodel.Table{Rows: len(b.Grid), Cols: len(b.Grid[0])}
			for r, row := range b.Grid {
				for cc, txt := range row {
					t.Cells = append(t.Cells, wpmodel.Cell{R: r, C: cc, RS: 1, CS: 1, Paras: []wpmodel.Para{wpPara(txt)}})
				}
			}
			d.Blocks = append(d.Blocks, wpmodel.Block{Kind: wpmodel.BTable, Table: t})
		}
	}
	return d
}

func howOf(b Blk) string {
	if b.How == "" {
		return wpmodel.HowBuiltin
	}
	return b.How
}

func htmlOf(c Case) string {
	open := []string{"", "<div class=\"content\">", "<section><div>"}[c.BodyDiv]
	end := []string{"", "</div>", "</div></section>"}[c.BodyDiv]
	return "<!DOCTYPE html>\n<html><head><title>Title of the document</title></head><body>\n" + open + htmlBodyNested(c.Blocks, c.NestWrap) + end + "</body></html>\n"
}

// htmlBody writes blocks as flow content that is well-formed both as HTML and as XHTML.
func htmlBody(blocks []Blk) string { return htmlBodyNested(blocks, 0) }

// htmlBodyNested: nestWrap != 0 puts every nested list into a wrapper inside its item - 1: <div>, 2: <blockquote>
func htmlBodyNested(blocks []Blk, nestWrap int) string {
	var b strings.Builder
	var wraps []int // per open list: the wrapper it stands in
	wrapOpen := []string{"", "<div>", "<blockquote>"}
	wrapClose := []string{"", "</div>", "</blockquote>"}
	esc := func(s string) string { return strings.ReplaceAll(html.EscapeString(s), "\n", "<br/>") }
	open := []bool{} // stack of open lists (ordered?)
	closeTo := func(depth int) {
		for len(open) > depth {
			if open[len(open)-1] {
				b.WriteString("</li></ol>")
			} else {
				b.WriteString("</li></ul>")
			}
			b.WriteString(wrapClose[wraps[len(wraps)-1]])
			open, wraps = open[:len(open)-1], wraps[:len(wraps)-1]
		}
	}
	for _, blk := range blocks {
		if blk.Kind != "item" {
			closeTo(0)
		}
		switch blk.Kind {
		case "heading":
			fmt.Fprintf(&b, "<h%d>%s</h%d>\n", blk.Level, esc(blk.Text), blk.Level)
		case "para":
			switch blk.Bare {
			case 1:
				fmt.Fprintf(&b, "%s\n", esc(blk.Text))
			case 2:
				fmt.Fprintf(&b, "<span class=\"lead\">%s</span>\n", esc(blk.Text))
			case 3:
				i := strings.Index(blk.Text, " ")
				fmt.Fprintf(&b, "<a href=\"#x\">%s</a>%s\n", esc(blk.Text[:i]), esc(blk.Text[i:]))
			default:
				fmt.Fprintf(&b, "<p>%s</p>\n", esc(blk.Text))
			}
		case "item":
			want := blk.Level + 1
			switch {
			case len(open) > want:
				closeTo(want)
				b.WriteString("</li><li>")
			case len(open) == want:
				if open[len(open)-1] != blk.Ordered {
					closeTo(want - 1)
					w := 0
					if len(open) > 0 {
						w = nestWrap
					}
					b.WriteString(wrapOpen[w])
					if blk.Ordered {
						b.WriteString("<ol><li>")
					} else {
						b.WriteString("<ul><li>")
					}
					open, wraps = append(open, blk.Ordered), append(wraps, w)
				} else {
					b.WriteString("</li><li>")
				}
			default:
				for len(open) < want {
					w := 0
					if len(open) > 0 {
						w = nestWrap
					}
					b.WriteString(wrapOpen[w])
					if blk.Ordered {
						b.WriteString("<ol><li>")
					} else {
						b.WriteString("<ul><li>")
					}
					open, wraps = append(open, blk.Ordered), append(wraps, w)
				}
			}
			if f := strings.Fields(blk.Text); blk.Bare == 4 && len(f) == 3 {
				fmt.Fprintf(&b, "%s <b>%s </b>%s", esc(f[0]), esc(f[1]), esc(f[2]))
			} else {
				b.WriteString(esc(blk.Text))
			}
		case "table":
			b.WriteString([]string{"", `<div class="table-responsive">`, `<div class="table-responsive"><span class="cap"></span>`, "<figure>", "<section><div>"}[blk.Wrap])
			b.WriteString("<table>\n")
			if blk.Caption != "" {
				fmt.Fprintf(&b, "<caption>%s</caption>\n", esc(blk.Caption))
			}
			for r, row := range blk.Grid {
				b.WriteString("<tr>")
				for cc, txt := range row {
					tag := "td"
					if r == 0 {
						tag = "th"
					}
					if r == 0 && blk.SpanFirst {
						if cc == 0 {
							fmt.Fprintf(&b, "<%s colspan=\"%d\">%s</%s>", tag, len(row), esc(txt), tag)
						}
						continue
					}
					fmt.Fprintf(&b, "<%s>%s</%s>", tag, esc(txt), tag)
				}
				b.WriteString("</tr>\n")
			}
			b.WriteString("</table>\n")
			b.WriteString([]string{"", "</div>", "</div>", "</figure>", "</div></section>"}[blk.Wrap])
		}
	}
	closeTo(0)
	return b.String()
}

func render(c Case) (string, error) {
	write := func(name string, data []byte, err error) (string, error) {
		if err != nil {
			return "", fmt.Errorf("INFRA: writer: %v", err)
		}
		dir, err := os.MkdirTemp(tmpDir, "c")
		if err != nil {
			return "", fmt.Errorf("INFRA: %v", err)
		}
		defer os.RemoveAll(dir)
		p := filepath.Join(dir, name)
		if err := os.WriteFile(p, data, 0o644); err != nil {
			return "", fmt.Errorf("INFRA: %v", err)
		}
		md, _, err := tabula.Open(p).ToMarkdownWithOptions(c.Opts.rag())
		if err != nil {
			return "", fmt.Errorf("ToMarkdownWithOptions failed on a valid document: %v", err)
		}
		return md, nil
	}
	switch c.Target {
	case "modeltable":
		var out strings.Builder
		for _, b := range c.Blocks {
			if b.Kind != "table" {
				continue
			}
			t := model.NewTable(len(b.Grid), len(b.Grid[0]))
			for r, row := range b.Grid {
				for cc, txt := range row {
					t.Rows[r][cc].Text = txt
				}
			}
			out.WriteString(t.ToMarkdown())
			out.WriteString("\n")
		}
		return out.String(), nil
	case "rag":
		doc := model.NewDocument()
		doc.Metadata.Title = "Title of the document"
		page := model.NewPage(612, 792)
		var items []model.ListItem
		var itemsOrdered bool
		flush := func() {
			if len(items) > 0 {
				page.AddElement(&model.List{Items: items, Ordered: itemsOrdered})
				items = nil
			}
		}
		for _, b := range c.Blocks {
			if b.Kind != "item" {
				flush()
			}
			switch b.Kind {
			case "heading":
				page.AddElement(&model.Heading{Text: b.Text, Level: b.Level})
			case "para":
				page.AddElement(&model.Paragraph{Text: b.Text})
			case "item":
				if len(items) > 0 && itemsOrdered != b.Ordered {
					flush()
				}
				itemsOrdered = b.Ordered
				items = append(items, model.ListItem{Text: b.Text, Level: b.Level})
			case "table":
				t := model.NewTable(len(b.Grid), len(b.Grid[0]))
				for r, row := range b.Grid {
					for cc, txt := range row {
						t.Rows[r][cc].Text = txt
					}
				}
				page.AddElement(t)
			}
		}
		flush()
		doc.AddPage(page)
		return rag.ChunkDocument(doc).ToMarkdownWithOptions(c.Opts.rag()), nil
	case "docx":
		data, err := docxw.Write(wpDoc(c), docxw.Options{})
		return write("doc.docx", data, err)
	case "odt":
		data, err := odtw.Write(wpDoc(c), odtw.Options{})
		return write("doc.odt", data, err)
	case "html":
		return write("doc.html", []byte(htmlOf(c)), nil)
	case "xlsx":
		wb := xlsxw.Workbook{}
		n := 0
		for _, b := range c.Blocks {
			if b.Kind != "table" {
				continue
			}
			n++
			sh := xlsxw.Sheet{Name: fmt.Sprintf("Sheet%c", 'A'+n-1)}
			for r, row := range b.Grid {
				for cc, txt := range row {
					if txt != "" {
						sh.Cells = append(sh.Cells, xlsxw.Cell{Row: r, Col: cc, Kind: xlsxw.Inline, Text: txt})
					}
				}
			}
			if len(b.Merge) == 4 {
				sh.Merges = append(sh.Merges, xlsxw.Merge{R1: b.Merge[0], C1: b.Merge[1], R2: b.Merge[2], C2: b.Merge[3]})
			}
			wb.Sheets = append(wb.Sheets, sh)
		}
		if err := wb.Validate(); err != nil {
			return "", fmt.Errorf("INFRA: %v", err)
		}
		data, err := wb.Bytes()
		return write("book.xlsx", data, err)
	case "epub":
		b := epubw.Book{Version: "3.0", OPFPath: "OEBPS/content.opf", Title: "Title of the document", Creator: "A", Language: "en", Identifier: "urn:uuid:1"}
		add := func() {
			b.Items = append(b.Items, epubw.Item{ID: fmt.Sprintf("ch%d", len(b.Items)), Path: fmt.Sprintf("ch%d.xhtml", len(b.Items))})
		}
		var pending []Blk
		flush := func() {
			if len(pending) > 0 {
				b.Items[len(b.Items)-1].Chapter.Body += htmlBody(pending)
				pending = nil
			}
		}
		for _, blk := range c.Blocks {
			if blk.Kind == "heading" {
				flush()
				add()
				b.Items[len(b.Items)-1].Chapter.Heading = blk.Text
				b.Items[len(b.Items)-1].Chapter.HeadingLevel = blk.Level
				continue
			}
			if len(b.Items) == 0 {
				add()
			}
			pending = append(pending, blk)
		}
		flush()
		if len(b.Items) == 0 {
			add()
			b.Items[0].Chapter.Paras = []string{"filler"}
		}
		for i := range b.Items {
			if b.Items[i].Chapter.Heading == "" && len(b.Items[i].Chapter.Paras) == 0 && b.Items[i].Chapter.Body == "" {
				b.Items[i].Chapter.Paras = []string{"filler"}
			}
			b.Spine = append(b.Spine, epubw.SpineRef{Item: i})
		}
		b.Items = append(b.Items, epubw.Item{ID: "nav", Path: "nav.xhtml", Role: "nav"})
		if err := b.Validate(); err != nil {
			return "", fmt.Errorf("INFRA: %v", err)
		}
		data, err := b.Bytes()
		return write("book.epub", data, err)
	case "pptx":
		dk := pptxw.Deck{}
		for _, b := range c.Blocks {
			switch b.Kind {
			case "heading":
				dk.Slides = append(dk.Slides, pptxw.Slide{Title: b.Text})
			case "table":
				if len(dk.Slides) == 0 {
					dk.Slides = append(dk.Slides, pptxw.Slide{Title: "Untitled slide"})
				}
				s := &dk.Slides[len(dk.Slides)-1]
				s.Tables = append(s.Tables, pptxw.Table{Rows: b.Grid})
			case "para":
				if len(dk.Slides) == 0 {
					dk.Slides = append(dk.Slides, pptxw.Slide{Title: "Untitled slide"})
				}
				s := &dk.Slides[len(dk.Slides)-1]
				s.Body = append(s.Body, pptxw.Para{Text: b.Text, Bullet: "none"})
			case "item":
				if len(dk.Slides) == 0 {
					dk.Slides = append(dk.Slides, pptxw.Slide{Title: "Untitled slide"})
				}
				s := &dk.Slides[len(dk.Slides)-1]
				bu := "char"
				if b.Ordered {
					bu = "auto"
				}
				s.Body = append(s.Body, pptxw.Para{Text: b.Text, Level: b.Level, Bullet: bu})
			}
		}
		if len(dk.Slides) == 0 {
			dk.Slides = append(dk.Slides, pptxw.Slide{Title: "Untitled slide"})
		}
		if err := dk.Validate(); err != nil {
			return "", fmt.Errorf("INFRA: %v", err)
		}
		data, err := dk.Bytes()
		return write("deck.pptx", data, err)
	}
	return "", fmt.Errorf("INFRA: unknown target %s", c.Target)
}

// ---------------------------------------------------------------------------
// oracle

var brTag = regexp.MustCompile(`(?i)<br\s*/?>`)

func norm(s string) string {
	s = brTag.ReplaceAllString(s, " ")
	return mdparse.Norm(strings.ReplaceAll(s, "\n", " "))
}

// strip removes the YAML front matter and the generated table-of-contents block.
func strip(md string) string {
	if strings.HasPrefix(md, "---\n") {
		if i := strings.Index(md[4:], "\n---\n"); i >= 0 {
			md = md[4+i+5:]
		}
	}
	if i := strings.Index(md, "## Table of Contents"); i >= 0 {
		rest := md[i:]
		if j := strings.Index(rest, "\n---\n"); j >= 0 {
			md = md[:i] + rest[j+5:]
		} else if j := strings.Index(rest, "\n\n#"); j >= 0 {
			md = md[:i] + rest[j+2:]
		}
	}
	return md
}

func supportsHeadingOptions(target string) bool { return true }

func checkCase(c Case) error {
	md, err := render(c)
	if err != nil {
		return err
	}
	blocks := mdparse.Parse(strip(md))
	show := func() string {
		if len(md) > 700 {
			return md[:700] + "…"
		}
		return md
	}

	// ---- tables -----------------------------------------------------------
	var gotTables [][][]string
	for _, b := range blocks {
		if b.Kind == "table" {
			gotTables = append(gotTables, b.Rows)
		}
	}
	var wantTables [][][]string
	for _, b := range c.Blocks {
		if b.Kind == "table" {
			wantTables = append(wantTables, b.Grid)
		}
	}
	if len(gotTables) != len(wantTables) {
		return fmt.Errorf("%s: GFM parser finds %d tables, document has %d\n%s", c.Target, len(gotTables), len(wantTables), show())
	}
	for k, want := range wantTables {
		got := gotTables[k]
		if len(got) != len(want) {
			return fmt.Errorf("%s: table %d has %d rows after parsing, source has %d\n%s", c.Target, k+1, len(got), len(want), show())
		}
		for r := range want {
			if len(got[r]) != len(want[r]) {
				return fmt.Errorf("%s: table %d row %d has %d cells after parsing, source has %d: %q vs %q\n%s", c.Target, k+1, r+1, len(got[r]), len(want[r]), got[r], want[r], show())
			}
			for cc := range want[r] {
				if norm(got[r][cc]) != norm(want[r][cc]) {
					return fmt.Errorf("%s: table %d cell (%d,%d) = %q after parsing, source %q\n%s", c.Target, k+1, r+1, cc+1, got[r][cc], want[r][cc], show())
				}
			}
		}
	}
	if c.Target == "modeltable" || c.Target == "xlsx" {
		return nil
	}

	// ---- headings -----------------------------------------------------------
	type hd struct {
		Level int
		Text  string
	}
	var gotH, wantH []hd
	for _, b := range blocks {
		// a leading title heading taken from the document's metadata is the writer's own addition
		if b.Kind == "heading" && norm(b.Text) != "Title of the document" {
			gotH = append(gotH, hd{b.Level, norm(b.Text)})
		}
	}
	for _, b := range c.Blocks {
		if b.Kind == "heading" {
			wantH = append(wantH, hd{c.Opts.level(b.Level), norm(b.Text)})
		}
	}
	if c.Target == "pptx" {
		// slide titles are the headings of a deck; generated slide separators/numbers are not judged:
		// every source heading must occur, in order, at its expected level
		j := 0
		for _, w := range wantH {
			for j < len(gotH) && !(strings.Contains(gotH[j].Text, w.Text)) {
				j++
			}
			if j == len(gotH) {
				return fmt.Errorf("pptx: slide title %q missing as a heading\n%s", w.Text, show())
			}
			j++
		}
	} else {
		if len(gotH) != len(wantH) {
			return fmt.Errorf("%s: %d ATX headings after parsing %v, source has %d %v (options %+v)\n%s", c.Target, len(gotH), gotH, len(wantH), wantH, c.Opts, show())
		}
		for k := range wantH {
			if gotH[k].Text != wantH[k].Text {
				return fmt.Errorf("%s: heading %d text %q, source %q\n%s", c.Target, k+1, gotH[k].Text, wantH[k].Text, show())
			}
			if gotH[k].Level != wantH[k].Level {
				return fmt.Errorf("%s: heading %q has level %d, want %d = clamp(source level %+d, 1, min(%d,6))\n%s", c.Target, wantH[k].Text, gotH[k].Level, wantH[k].Level, c.Opts.Offset, c.Opts.Max, show())
			}
		}
	}
	if c.Target == "pptx" {
		for _, b := range c.Blocks {
			if b.Kind == "para" && !strings.Contains(norm(md), norm(b.Text)) {
				return fmt.Errorf("pptx: body text %q missing\n%s", b.Text, show())
			}
		}
	}

	// ---- list items and paragraphs -------------------------------------------
	type it struct {
		Depth   int
		Ordered bool
		Text    string
	}
	var gotI, wantI []it
	for _, b := range blocks {
		if b.Kind == "item" {
			gotI = append(gotI, it{b.Level, b.Ordered, norm(b.Text)})
		}
	}
	for _, b := range c.Blocks {
		if b.Kind == "item" {
			wantI = append(wantI, it{b.Level, b.Ordered, norm(b.Text)})
		}
	}
	if len(gotI) != len(wantI) {
		return fmt.Errorf("%s: %d list items after parsing %v, source has %d %v\n%s", c.Target, len(gotI), gotI, len(wantI), wantI, show())
	}
	for k := range wantI {
		if gotI[k] != wantI[k] {
			return fmt.Errorf("%s: list item %d is %+v after parsing, source %+v\n%s", c.Target, k+1, gotI[k], wantI[k], show())
		}
	}
	flat := norm(md)
	for _, b := range c.Blocks {
		if b.Kind == "para" && !strings.Contains(flat, norm(b.Text)) {
			return fmt.Errorf("%s: paragraph text %q missing (bare=%d, body wrapper %d)\n%s", c.Target, b.Text, b.Bare, c.BodyDiv, show())
		}
		if b.Kind == "table" && b.Caption != "" && !strings.Contains(flat, norm(b.Caption)) {
			return fmt.Errorf("%s: the text %q of a table caption is missing\n%s", c.Target, b.Caption, show())
		}
	}
	return nil
}

func init() { vr.Register("markdown", checkCase) }

// ---------------------------------------------------------------------------
// generator

var targets = []string{"modeltable", "rag", "docx", "odt", "xlsx", "pptx", "html", "epub"}

func genCell(t *rapid.T, tok func() string) string {
	switch rapid.SampledFrom([]string{"tok", "tok", "tok", "pipe", "pipe2", "lonepipe", "empty", "blanks", "newline", "two", "pipenewline"}).Draw(t, "cellKind") {
	case "pipenewline":
		// both in one cell: "either a|b" on one line, "or c|d" on the next
		return tok() + "|" + tok() + "\n" + tok() + "|" + tok()
	case "pipe":
		return tok() + "|" + tok()
	case "pipe2":
		return tok() + " | " + tok() + "|"
	case "lonepipe":
		return "|"
	case "empty":
		return ""
	case "blanks":
		return "  " + tok() + " "
	case "newline":
		return tok() + "\n" + tok()
	case "two":
		return tok() + " " + tok()
	}
	return tok()
}

func genCase(t *rapid.T) Case {
	c := Case{Target: rapid.SampledFrom(targets).Draw(t, "target")}
	n := 0
	tok := func() string { n++; return fmt.Sprintf("w%dq", n) }
	c.Opts = Opts{Max: 6}
	if rapid.Bool().Draw(t, "nonDefaultOptions") {
		c.Opts = Opts{Meta: rapid.Bool().Draw(t, "meta"), TOC: rapid.Bool().Draw(t, "toc"),
			Offset: rapid.IntRange(-2, 7).Draw(t, "offset"), Max: rapid.IntRange(1, 6).Draw(t, "max")}
	}
	nb := rapid.IntRange(1, 8).Draw(t, "blocks")
	depth := -1 // depth of the previous list item (-1: not in a list)
	ordered := false
	var kindAt [3]bool    // kind of the open list at each depth
	var levelSeen [3]bool // word-processor lists: levels of the running list that have shown an item
	for i := 0; i < nb; i++ {
		kind := rapid.SampledFrom([]string{"heading", "para", "item", "item", "table", "table"}).Draw(t, "kind")
		if c.Target == "modeltable" || c.Target == "xlsx" {
			kind = "table"
		}
		switch kind {
		case "heading":
			lvl := rapid.IntRange(1, 6).Draw(t, "level")
			txt := tok() + " " + tok()
			// section titles repeat in real documents ("Overview" under every part): reuse an earlier title
			var earlier []string
			for _, b := range c.Blocks {
				if b.Kind == "heading" {
					earlier = append(earlier, b.Text)
				}
			}
			if len(earlier) > 0 && rapid.IntRange(0, 4).Draw(t, "repeatTitle") == 0 {
				txt = rapid.SampledFrom(earlier).Draw(t, "earlierTitle")
				// known finding (chunk collections only): the title of the heading right before this one
				if c.Target == "rag" && txt == earlier[len(earlier)-1] && !vr.Want("rag-consecutive-same-title", true) {
					txt = tok() + " " + tok()
				}
			}
			hb := Blk{Kind: "heading", Level: lvl, Text: txt}
			if (c.Target == "docx" || c.Target == "odt") && rapid.Bool().Draw(t, "headingHow") {
				hb.How = rapid.SampledFrom([]string{wpmodel.HowLocalized, wpmodel.HowCustom, wpmodel.HowBased, wpmodel.HowBased2, wpmodel.HowDirect, wpmodel.HowOverride}).Draw(t, "how")
			}
			if (c.Target == "html" || c.Target == "epub") && txt == hb.Text && strings.Count(txt, " ") == 1 && rapid.IntRange(0, 3).Draw(t, "headingBreak") == 0 {
				hb.Text = strings.Replace(txt, " ", "\n", 1) // a line break inside the heading
			}
			c.Blocks = append(c.Blocks, hb)
			depth = -1
		case "para":
			pb := Blk{Kind: "para", Text: tok() + " " + tok() + " " + tok()}
			if c.Target == "html" && rapid.IntRange(0, 2).Draw(t, "bare") == 0 {
				pb.Bare = rapid.IntRange(1, 3).Draw(t, "bareKind")
			}
			c.Blocks = append(c.Blocks, pb)
			depth = -1
		case "item":
			d := 0
			if depth >= 0 {
				d = rapid.IntRange(0, minInt(depth+1, 2)).Draw(t, "depth") // a list deepens one level at a time
				// one definition per list in the word-processor formats: keep the kind within a run of items.
				// HTML nests <ol> in <ul> items and vice versa: a nested list may have the other kind
				wp := c.Target == "docx" || c.Target == "odt"
				switch {
				case (c.Target == "html" || c.Target == "epub") && d > depth && rapid.Bool().Draw(t, "otherKind"):
					kindAt[d] = !kindAt[depth]
				case wp && d > depth && !levelSeen[d] && rapid.Bool().Draw(t, "otherKindLevel"):
					// word-processor lists: the kind belongs to the level of the list definition; it is chosen when
					// the level shows first and stays
					kindAt[d] = !kindAt[depth]
				case wp && d > depth && levelSeen[d]:
				case d > depth:
					kindAt[d] = kindAt[depth]
				}
				levelSeen[d] = true
				ordered = kindAt[d]
			} else {
				ordered = rapid.Bool().Draw(t, "ordered")
				kindAt = [3]bool{ordered, ordered, ordered}
				levelSeen = [3]bool{true, false, false}
			}
			ib := Blk{Kind: "item", Level: d, Ordered: ordered, Text: tok() + " " + tok()}
			if c.Target == "html" || c.Target == "epub" {
				switch rapid.IntRange(0, 5).Draw(t, "itemInline") {
				case 0: // the blank between two words stands inside an inline element: "w1q <b>w2q </b>w3q"
					ib.Text += " " + tok()
					ib.Bare = 4
				case 1: // a line break between the two words
					ib.Text = strings.Replace(ib.Text, " ", "\n", 1)
				}
			}
			c.Blocks = append(c.Blocks, ib)
			depth = d
		case "table":
			rows := rapid.IntRange(2, 4).Draw(t, "rows")
			cols := rapid.IntRange(1, 4).Draw(t, "cols")
			g := make([][]string, rows)
			for r := range g {
				g[r] = make([]string, cols)
				for cc := range g[r] {
					g[r][cc] = genCell(t, tok)
				}
			}
			// anchor cells so that formats which trim empty border rows/columns keep the shape
			if strings.TrimSpace(g[0][0]) == "" || g[0][0] == "|" {
				g[0][0] = tok()
			}
			if strings.TrimSpace(g[rows-1][cols-1]) == "" {
				g[rows-1][cols-1] = tok()
			}
			if c.Target == "xlsx" {
				// a worksheet cell is addressed, not delimited: every header cell is filled so that the
				// used range is the generated rectangle; blanks around a value are kept out (Excel trims nothing,
				// the property is about structure)
				for cc := range g[0] {
					if strings.TrimSpace(g[0][cc]) == "" {
						g[0][cc] = tok()
					}
				}
				for r := range g {
					if strings.TrimSpace(g[r][0]) == "" {
						g[r][0] = tok()
					}
				}
			}
			blk := Blk{Kind: "table", Grid: g}
			if (c.Target == "html" || c.Target == "epub") && rapid.Bool().Draw(t, "wrappedTable") {
				blk.Wrap = rapid.IntRange(1, 4).Draw(t, "wrapper")
			}
			if c.Target == "html" || c.Target == "epub" {
				if rapid.IntRange(0, 3).Draw(t, "caption") == 0 {
					blk.Caption = tok() + " " + tok()
				}
				if cols >= 2 && rapid.IntRange(0, 3).Draw(t, "spanFirst") == 0 {
					blk.SpanFirst = true
					for cc := 1; cc < cols; cc++ {
						g[0][cc] = ""
					}
				}
			}
			if c.Target == "xlsx" && rows >= 3 && rapid.IntRange(0, 1).Draw(t, "merge") == 0 {
				// a merged region below the header row; what it covers besides its root is empty
				r1 := rapid.IntRange(1, rows-2).Draw(t, "mr1")
				c1 := rapid.IntRange(0, cols-1).Draw(t, "mc1")
				r2 := rapid.IntRange(r1, rows-1).Draw(t, "mr2")
				c2 := rapid.IntRange(c1, minInt(c1+1, cols-1)).Draw(t, "mc2")
				if (r2 > r1 || c2 > c1) && !(r2 == rows-1 && c2 == cols-1) {
					blk.Merge = []int{r1, c1, r2, c2}
					for r := r1; r <= r2; r++ {
						for cc := c1; cc <= c2; cc++ {
							if r != r1 || cc != c1 {
								g[r][cc] = ""
							}
						}
					}
					if strings.TrimSpace(g[r1][c1]) == "" {
						g[r1][c1] = tok()
					}
				}
			}
			c.Blocks = append(c.Blocks, blk)
			depth = -1
		}
	}
	if c.Target == "modeltable" || c.Target == "xlsx" {
		c.Opts = Opts{Max: 6}
	}
	if c.Target == "html" && rapid.IntRange(0, 2).Draw(t, "bodyDiv") == 0 {
		c.BodyDiv = rapid.IntRange(1, 2).Draw(t, "bodyDivKind")
	}
	if c.Target == "html" && rapid.IntRange(0, 2).Draw(t, "nestWrap") == 0 {
		c.NestWrap = rapid.IntRange(1, 2).Draw(t, "nestWrapKind")
	}
	return c
}

func minInt(a, b int) int {
	if a < b {
		return a
	}
	return b
}

func meta(c Case) vr.Meta {
	js, _ := json.Marshal(c)
	labels := []string{"target:" + c.Target}
	if c.NestWrap > 0 {
		labels = append(labels, fmt.Sprintf("nested-lists-in-wrapper:%d", c.NestWrap))
	}
	nt := false
	titles := map[string]bool{}
	for _, b := range c.Blocks {
		if b.Kind == "heading" {
			if titles[b.Text] {
				labels = append(labels, "repeated-title")
			}
			titles[b.Text] = true
		}
		labels = append(labels, c.Target+":"+b.Kind)
		if b.How != "" {
			labels = append(labels, "heading-how:"+b.How)
		}
		if b.Kind == "heading" && strings.Contains(b.Text, "\n") {
			labels = append(labels, "heading-with-line-break")
		}
		if b.Caption != "" {
			labels = append(labels, "table-caption")
		}
		if b.SpanFirst {
			labels = append(labels, "first-row-colspan")
		}
		if b.Merge != nil {
			labels = append(labels, "xlsx-merged-region")
		}
		if b.Bare > 0 {
			labels = append(labels, fmt.Sprintf("bare-text:%d", b.Bare))
		}
		switch b.Kind {
		case "table":
			for _, row := range b.Grid {
				for _, cell := range row {
					if strings.Contains(cell, "|") {
						nt = true
						labels = append(labels, "cell:pipe")
					}
					if strings.Contains(cell, "\n") {
						nt = true
						labels = append(labels, "cell:newline")
					}
					if cell == "" {
						nt = true
						labels = append(labels, "cell:empty")
					}
				}
			}
		case "item":
			if b.Level > 0 && b.Ordered {
				nt = true
				labels = append(labels, "nested-ordered")
			}
			if b.Level > 0 {
				labels = append(labels, "nested")
			}
		case "heading":
			if c.Opts.level(b.Level) != b.Level+c.Opts.Offset {
				nt = true
				labels = append(labels, "clamped")
			}
		}
	}
	if c.Opts.Offset != 0 {
		labels = append(labels, "offset")
	}
	if c.Opts.TOC {
		labels = append(labels, "toc")
	}
	if c.Opts.Meta {
		labels = append(labels, "meta")
	}
	seen := map[string]bool{}
	var u []string
	for _, l := range labels {
		if !seen[l] {
			seen[l] = true
			u = append(u, l)
		}
	}
	sort.Strings(u)
	return vr.Meta{FP: string(js), NonTrivial: nt, Labels: u}
}

func TestMarkdown(t *testing.T) {
	vr.Prop(t, "markdown", vr.N(16000, 300000), genCase, meta, checkCase)
}
