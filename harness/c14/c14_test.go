// C14 — Chunk exports parse back to the same chunks.
//
// Three (generator, oracle) pairs over chunk collections with adversarial but
// valid-UTF-8 strings (gen/txt.Field):
//
//	export    Exporter.ExportToString under a random ExportConfig, the ToJSON/ToJSONL/
//	          ToCSV/ToTSV presets, BatchExporter and StreamExporter
//	vectordb  EmbeddingExporter.ExportForPinecone / ExportForChroma / ExportForWeaviate /
//	          PrepareForVectorDB
//	filter    ChunkCollection.Filter, FilterBy*, FilterWith*, Search and chains of them
//
// The oracles are encoding/json, the strict RFC 4180 reader oracle/csv4180 plus
// encoding/csv (acceptance), and reference predicates written from the doc
// comments.
package c14

import (
	"bytes"
	"encoding/csv"
	"encoding/json"
	"fmt"
	"io"
	"math"
	"os"
	"path/filepath"
	"reflect"
	"sort"
	"strconv"
	"strings"
	"testing"
	"unicode"
	"unicode/utf8"

	"github.com/tsawler/tabula/rag"
	"pgregory.net/rapid"

	"verif/harness/gen/txt"
	"verif/harness/oracle/csv4180"
	"verif/harness/vr"
)

func TestMain(m *testing.M) { vr.Main(m) }

// ---------------------------------------------------------------------------
// the logical model

type ChunkSpec struct {
	ID           string   `json:"id"`
	Text         string   `json:"text"`
	DocTitle     string   `json:"doc_title,omitempty"`
	SectionPath  []string `json:"section_path,omitempty"`
	SectionTitle string   `json:"section_title,omitempty"`
	HeadingLevel int      `json:"heading_level,omitempty"`
	PageStart    int      `json:"page_start,omitempty"`
	PageEnd      int      `json:"page_end,omitempty"`
	ChunkIndex   int      `json:"chunk_index,omitempty"`
	TotalChunks  int      `json:"total_chunks,omitempty"`
	Level        int      `json:"level,omitempty"` // rag.ChunkLevel 0..3
	ParentID     string   `json:"parent_id,omitempty"`
	ChildIDs     []string `json:"child_ids,omitempty"`
	ElemTypes    []string `json:"element_types,omitempty"`
	HasTable     bool     `json:"has_table,omitempty"`
	HasList      bool     `json:"has_list,omitempty"`
	HasImage     bool     `json:"has_image,omitempty"`
	CharCount    int      `json:"char_count,omitempty"`
	WordCount    int      `json:"word_count,omitempty"`
	Tokens       int      `json:"estimated_tokens,omitempty"`
}

func (s ChunkSpec) build() *rag.Chunk {
	return &rag.Chunk{ID: s.ID, Text: s.Text, Metadata: rag.ChunkMetadata{
		DocumentTitle: s.DocTitle, SectionPath: append([]string(nil), s.SectionPath...), SectionTitle: s.SectionTitle,
		HeadingLevel: s.HeadingLevel, PageStart: s.PageStart, PageEnd: s.PageEnd, ChunkIndex: s.ChunkIndex,
		TotalChunks: s.TotalChunks, Level: rag.ChunkLevel(s.Level), ParentID: s.ParentID,
		ChildIDs: append([]string(nil), s.ChildIDs...), ElementTypes: append([]string(nil), s.ElemTypes...),
		HasTable: s.HasTable, HasList: s.HasList, HasImage: s.HasImage,
		CharCount: s.CharCount, WordCount: s.WordCount, EstimatedTokens: s.Tokens,
	}}
}

func buildAll(specs []ChunkSpec) []*rag.Chunk {
	out := make([]*rag.Chunk, len(specs))
	for i, s := range specs {
		out[i] = s.build()
	}
	return out
}

var levelNames = []string{"document", "section", "paragraph", "sentence"}

// metaKeys are the metadata field names (the JSON tags of rag.ChunkMetadata).
var metaKeys = []string{"document_title", "section_path", "section_title", "heading_level", "page_start", "page_end",
	"chunk_index", "total_chunks", "level", "parent_id", "child_ids", "element_types", "has_table", "has_list", "has_image",
	"char_count", "word_count", "estimated_tokens"}

// metaValue returns the chunk's value of a metadata key in a normal form:
// string, int, bool or []string.
func (s ChunkSpec) metaValue(key string) any {
	switch key {
	case "document_title":
		return s.DocTitle
	case "section_path":
		return s.SectionPath
	case "section_title":
		return s.SectionTitle
	case "heading_level":
		return s.HeadingLevel
	case "page_start":
		return s.PageStart
	case "page_end":
		return s.PageEnd
	case "chunk_index":
		return s.ChunkIndex
	case "total_chunks":
		return s.TotalChunks
	case "level":
		return s.Level
	case "parent_id":
		return s.ParentID
	case "child_ids":
		return s.ChildIDs
	case "element_types":
		return s.ElemTypes
	case "has_table":
		return s.HasTable
	case "has_list":
		return s.HasList
	case "has_image":
		return s.HasImage
	case "char_count":
		return s.CharCount
	case "word_count":
		return s.WordCount
	case "estimated_tokens":
		return s.Tokens
	}
	return nil
}

func isZero(v any) bool {
	switch x := v.(type) {
	case string:
		return x == ""
	case int:
		return x == 0
	case bool:
		return !x
	case []string:
		return len(x) == 0
	}
	return v == nil
}

func q(s string) string {
	if len(s) > 80 {
		return fmt.Sprintf("%q…(%d bytes)", s[:80], len(s))
	}
	return fmt.Sprintf("%q", s)
}

// ---------------------------------------------------------------------------
// JSON side: compare a decoded JSON value with a model value

// jsonEq compares a value decoded by encoding/json (string, float64, bool,
// []any, nil) with a model value; absent (nil) equals the zero value. For the
// key "level" both the name and the number are accepted.
func jsonEq(key string, got any, want any) error {
	isLevel := key[strings.LastIndex(key, ".")+1:] == "level"
	if got == nil {
		if isZero(want) {
			return nil
		}
		return fmt.Errorf("%s is missing, want %v", key, want)
	}
	switch w := want.(type) {
	case string:
		g, ok := got.(string)
		if !ok || g != w {
			return fmt.Errorf("%s = %v, want %s", key, show(got), q(w))
		}
	case int:
		if isLevel {
			if g, ok := got.(string); ok {
				if w >= 0 && w < len(levelNames) && g == levelNames[w] {
					return nil
				}
				return fmt.Errorf("level = %q, want %q", g, levelNames[w])
			}
		}
		g, ok := got.(float64) // numbers are compared as float64 (DESIGN.md §8)
		if !ok || g != float64(w) {
			return fmt.Errorf("%s = %v, want %d", key, show(got), w)
		}
	case bool:
		g, ok := got.(bool)
		if !ok || g != w {
			return fmt.Errorf("%s = %v, want %v", key, show(got), w)
		}
	case []string:
		g, ok := got.([]any)
		if !ok || len(g) != len(w) {
			return fmt.Errorf("%s = %v, want %q", key, show(got), w)
		}
		for i := range w {
			if gs, ok := g[i].(string); !ok || gs != w[i] {
				return fmt.Errorf("%s[%d] = %v, want %s", key, i, show(g[i]), q(w[i]))
			}
		}
	default:
		return fmt.Errorf("internal: no comparison for %s (%T)", key, want)
	}
	return nil
}

func show(v any) string {
	b, _ := json.Marshal(v)
	if len(b) > 120 {
		return string(b[:120]) + "…"
	}
	return string(b)
}

// ---------------------------------------------------------------------------
// export configuration

type ExportSpec struct {
	Format       int      `json:"format"` // rag.ExportFormat 0..3
	IncludeMeta  bool     `json:"include_metadata"`
	FieldsSet    bool     `json:"fields_set"` // false: MetadataFields == nil (all)
	Fields       []string `json:"fields,omitempty"`
	IncludeText  bool     `json:"include_text"`
	IncludeEmb   bool     `json:"include_embeddings"`
	Flatten      bool     `json:"flatten"`
	Delim        int      `json:"delim"` // rune; 0 = unset ("default: comma")
	Header       bool     `json:"header"`
	Pretty       bool     `json:"pretty"`
	TextCol      string   `json:"text_col"`
	IDCol        string   `json:"id_col"`
	Preset       string   `json:"preset,omitempty"`        // "", ToJSON, ToJSONL, ToCSV, ToTSV (collection methods)
	ConfigPreset string   `json:"config_preset,omitempty"` // informational label
}

func (e ExportSpec) build() rag.ExportConfig {
	c := rag.ExportConfig{Format: rag.ExportFormat(e.Format), IncludeMetadata: e.IncludeMeta, IncludeText: e.IncludeText,
		IncludeEmbeddings: e.IncludeEmb, FlattenMetadata: e.Flatten, CSVDelimiter: rune(e.Delim), IncludeHeader: e.Header,
		PrettyPrint: e.Pretty, TextColumnName: e.TextCol, ChunkIDColumnName: e.IDCol}
	if e.FieldsSet {
		c.MetadataFields = append([]string{}, e.Fields...)
	}
	return c
}

func specOf(c rag.ExportConfig) ExportSpec {
	return ExportSpec{Format: int(c.Format), IncludeMeta: c.IncludeMetadata, FieldsSet: c.MetadataFields != nil,
		Fields: c.MetadataFields, IncludeText: c.IncludeText, IncludeEmb: c.IncludeEmbeddings, Flatten: c.FlattenMetadata,
		Delim: int(c.CSVDelimiter), Header: c.IncludeHeader, Pretty: c.PrettyPrint, TextCol: c.TextColumnName, IDCol: c.ChunkIDColumnName}
}

func (e ExportSpec) allowed(key string) bool {
	if !e.FieldsSet {
		return true
	}
	for _, f := range e.Fields {
		if f == key {
			return true
		}
	}
	return false
}

// ---------------------------------------------------------------------------
// oracles per format

// checkJSONRecord compares one decoded export record with its chunk.
func checkJSONRecord(obj map[string]any, s ChunkSpec, e ExportSpec) error {
	if err := jsonEq("id", obj["id"], s.ID); err != nil {
		return err
	}
	if e.IncludeText {
		if err := jsonEq("text", obj["text"], s.Text); err != nil {
			return err
		}
	}
	for _, k := range []string{"document_title", "page_start", "page_end", "chunk_index", "section_title", "section_path", "has_table", "has_list", "has_image"} {
		if err := jsonEq(k, obj[k], s.metaValue(k)); err != nil {
			return err
		}
	}
	if !e.IncludeMeta {
		return nil
	}
	var md map[string]any
	if raw, ok := obj["metadata"]; ok && raw != nil {
		md, ok = raw.(map[string]any)
		if !ok {
			return fmt.Errorf("metadata is %s, want an object", show(raw))
		}
	}
	known := map[string]bool{}
	for _, k := range metaKeys {
		known[k] = true
		if !e.allowed(k) {
			continue
		}
		if err := jsonEq("metadata."+k, md[k], s.metaValue(k)); err != nil {
			return err
		}
	}
	for k, v := range md {
		if !known[k] {
			return fmt.Errorf("metadata has an invented key %q = %s", k, show(v))
		}
		if !e.allowed(k) {
			return fmt.Errorf("metadata key %q is not in MetadataFields %q", k, e.Fields)
		}
	}
	return nil
}

func decodeObj(b []byte) (map[string]any, error) {
	var v any
	if err := json.Unmarshal(b, &v); err != nil {
		return nil, err
	}
	obj, ok := v.(map[string]any)
	if !ok {
		return nil, fmt.Errorf("not a JSON object: %s", show(v))
	}
	return obj, nil
}

// parseJSONL: JSON Lines = one complete JSON value per line, lines separated
// by LF, optional final LF (jsonlines.org: "Each Line is a Valid JSON Value",
// "Line Separator is '\n'").
func parseJSONL(out string) ([]map[string]any, error) {
	if !utf8.ValidString(out) {
		return nil, fmt.Errorf("output is not valid UTF-8")
	}
	if out == "" {
		return nil, nil
	}
	body := strings.TrimSuffix(out, "\n")
	var recs []map[string]any
	for i, line := range strings.Split(body, "\n") {
		line = strings.TrimSuffix(line, "\r")
		obj, err := decodeObj([]byte(line))
		if err != nil {
			return nil, fmt.Errorf("line %d is not one JSON object (%v): %s", i+1, err, q(line))
		}
		recs = append(recs, obj)
	}
	return recs, nil
}

func parseJSONArray(out string) ([]map[string]any, error) {
	if !utf8.ValidString(out) {
		return nil, fmt.Errorf("output is not valid UTF-8")
	}
	var v any
	if err := json.Unmarshal([]byte(out), &v); err != nil {
		return nil, fmt.Errorf("not valid JSON: %v", err)
	}
	arr, ok := v.([]any)
	if !ok {
		return nil, fmt.Errorf("top-level value is not an array: %s", show(v))
	}
	recs := make([]map[string]any, len(arr))
	for i, a := range arr {
		obj, ok := a.(map[string]any)
		if !ok {
			return nil, fmt.Errorf("element %d is not an object: %s", i, show(a))
		}
		recs[i] = obj
	}
	return recs, nil
}

// listInvertible: "[a,b]" can be read back only when no element contains ',', '[' or ']'.
func listInvertible(l []string) bool {
	for _, s := range l {
		if strings.ContainsAny(s, ",[]") {
			return false
		}
	}
	return true
}

func parseFlatList(cell string) ([]string, bool) {
	if cell == "" {
		return nil, true
	}
	if !strings.HasPrefix(cell, "[") || !strings.HasSuffix(cell, "]") {
		return nil, false
	}
	return strings.Split(cell[1:len(cell)-1], ","), true
}

// csvCell compares one CSV cell with a model value (empty cell = zero value).
func csvCell(col, cell string, want any) error {
	switch w := want.(type) {
	case string:
		if cell != w {
			return fmt.Errorf("column %q = %s, want %s", col, q(cell), q(w))
		}
	case int:
		if col == "meta_level" {
			if w >= 0 && w < len(levelNames) && cell == levelNames[w] {
				return nil
			}
		}
		if cell == "" && w == 0 {
			return nil
		}
		n, err := strconv.Atoi(cell)
		if err != nil || n != w {
			return fmt.Errorf("column %q = %s, want %d", col, q(cell), w)
		}
	case bool:
		if cell == "" && !w {
			return nil
		}
		b, err := strconv.ParseBool(cell)
		if err != nil || b != w {
			return fmt.Errorf("column %q = %s, want %v", col, q(cell), w)
		}
	case []string:
		if !listInvertible(w) {
			return nil // the flat spelling cannot be inverted: not demanded
		}
		got, ok := parseFlatList(cell)
		if !ok || !reflect.DeepEqual(append([]string{}, got...), append([]string{}, w...)) {
			return fmt.Errorf("column %q = %s, want the list %q", col, q(cell), w)
		}
	}
	return nil
}

var stdCols = []string{"chunk_index", "document_title", "page_start", "page_end", "section_title", "has_table", "has_list", "has_image"}

// checkCSV parses out with both readers and compares it with the chunks.
// delims: the delimiters accepted for this configuration (first that parses wins).
func checkCSV(out string, specs []ChunkSpec, e ExportSpec, delims []byte, headerlessRef func() (string, error)) error {
	if !utf8.ValidString(out) {
		return fmt.Errorf("output is not valid UTF-8")
	}
	var recs [][]string
	var perr error
	var delim byte
	for _, d := range delims {
		recs, perr = csv4180.Parse([]byte(out), d)
		if perr == nil {
			delim = d
			break
		}
	}
	if perr != nil {
		return fmt.Errorf("not RFC 4180 CSV: %v", perr)
	}
	// acceptance by encoding/csv (which reads CRLF inside quoted fields as LF)
	r := csv.NewReader(strings.NewReader(out))
	r.Comma = rune(delim)
	r.FieldsPerRecord = -1
	std, err := r.ReadAll()
	if err != nil {
		return fmt.Errorf("encoding/csv rejects the output: %v", err)
	}
	if len(std) != len(recs) {
		return fmt.Errorf("encoding/csv reads %d records, the RFC 4180 reader %d", len(std), len(recs))
	}
	for i := range recs {
		if len(std[i]) != len(recs[i]) {
			return fmt.Errorf("record %d: encoding/csv reads %d fields, the RFC 4180 reader %d", i, len(std[i]), len(recs[i]))
		}
		for j := range recs[i] {
			if std[i][j] != strings.ReplaceAll(recs[i][j], "\r\n", "\n") {
				return fmt.Errorf("record %d field %d: encoding/csv reads %s, the RFC 4180 reader %s", i, j, q(std[i][j]), q(recs[i][j]))
			}
		}
	}
	want := len(specs)
	if e.Header {
		want++
	}
	if len(recs) != want {
		return fmt.Errorf("%d CSV records for %d chunks (header: %v)", len(recs), len(specs), e.Header)
	}
	var header []string
	rows := recs
	if e.Header {
		header, rows = recs[0], recs[1:]
	} else {
		// metamorphic: without a header the rows must be those of the same export with a header
		if len(specs) == 0 {
			return nil
		}
		ref, err := headerlessRef()
		if err != nil {
			return fmt.Errorf("the same export with a header failed: %v", err)
		}
		refRecs, err := csv4180.Parse([]byte(ref), delim)
		if err != nil || len(refRecs) != len(specs)+1 {
			return fmt.Errorf("the same export with a header is not CSV with %d records (%v)", len(specs)+1, err)
		}
		if !reflect.DeepEqual(refRecs[1:], rows) {
			return fmt.Errorf("rows without a header differ from the rows with a header")
		}
		header = refRecs[0]
	}
	col := map[string]int{}
	for i, h := range header {
		if _, dup := col[h]; dup {
			return fmt.Errorf("duplicate column %q", h)
		}
		col[h] = i
	}
	need := append([]string{e.IDCol}, stdCols...)
	if e.IncludeText {
		need = append(need, e.TextCol)
	}
	for _, n := range need {
		if _, ok := col[n]; !ok {
			return fmt.Errorf("column %q is missing from the header %q", n, header)
		}
	}
	for i, s := range specs {
		row := rows[i]
		fail := func(err error) error { return fmt.Errorf("row %d (chunk %s): %v", i, q(s.ID), err) }
		if err := csvCell(e.IDCol, row[col[e.IDCol]], s.ID); err != nil {
			return fail(err)
		}
		if e.IncludeText {
			if err := csvCell(e.TextCol, row[col[e.TextCol]], s.Text); err != nil {
				return fail(err)
			}
		}
		for _, k := range stdCols {
			if err := csvCell(k, row[col[k]], s.metaValue(k)); err != nil {
				return fail(err)
			}
		}
		for _, k := range metaKeys {
			// a column that is there carries the chunk's value, whether the configuration asked for it or not
			// (an empty meta_level next to a chunk of level 2 reads back as a record that disagrees with its chunk);
			// it has to be there only if metadata is included and the include list admits the key
			wanted := e.IncludeMeta && e.allowed(k)
			isStd := false
			for _, sc := range stdCols {
				if sc == k {
					isStd = true
				}
			}
			if isStd {
				continue // carried by the standard column
			}
			v := s.metaValue(k)
			ci, ok := col["meta_"+k]
			if !ok {
				if !wanted || isZero(v) {
					continue
				}
				if l, isList := v.([]string); isList && !listInvertible(l) {
					continue
				}
				return fail(fmt.Errorf("no column meta_%s although the chunk has %s = %v", k, k, v))
			}
			if err := csvCell("meta_"+k, row[ci], v); err != nil {
				return fail(err)
			}
		}
	}
	return nil
}

// ---------------------------------------------------------------------------
// check "export"

type ExportCase struct {
	Mode   string      `json:"mode"` // export | preset | batch | stream
	Chunks []ChunkSpec `json:"chunks"`
	Export ExportSpec  `json:"export"`
	Batch  int         `json:"batch,omitempty"`
	Labels []string    `json:"labels,omitempty"`
}

func csvDelims(e ExportSpec) []byte {
	if e.Delim != 0 {
		return []byte{byte(e.Delim)}
	}
	// unset: "CSVDelimiter specifies the delimiter for CSV export (default: comma)";
	// for the TSV format a tab is accepted as well
	if rag.ExportFormat(e.Format) == rag.ExportFormatTSV {
		return []byte{'\t', ','}
	}
	return []byte{','}
}

// checkOutput checks one exported string against the chunks it was made from.
func checkOutput(out string, specs []ChunkSpec, e ExportSpec, asLines bool) error {
	switch f := rag.ExportFormat(e.Format); {
	case f == rag.ExportFormatJSONL || asLines:
		recs, err := parseJSONL(out)
		if err != nil {
			return fmt.Errorf("JSON Lines: %v", err)
		}
		if len(recs) != len(specs) {
			return fmt.Errorf("JSON Lines: %d records for %d chunks", len(recs), len(specs))
		}
		for i, r := range recs {
			if err := checkJSONRecord(r, specs[i], e); err != nil {
				return fmt.Errorf("JSON Lines record %d: %v", i, err)
			}
		}
	case f == rag.ExportFormatJSON:
		recs, err := parseJSONArray(out)
		if err != nil {
			return fmt.Errorf("JSON: %v", err)
		}
		if len(recs) != len(specs) {
			return fmt.Errorf("JSON: %d records for %d chunks", len(recs), len(specs))
		}
		for i, r := range recs {
			if err := checkJSONRecord(r, specs[i], e); err != nil {
				return fmt.Errorf("JSON record %d: %v", i, err)
			}
		}
	case f == rag.ExportFormatCSV || f == rag.ExportFormatTSV:
		ref := func() (string, error) {
			h := e
			h.Header = true
			return rag.NewExporterWithConfig(h.build()).ExportToString(buildAll(specs))
		}
		if err := checkCSV(out, specs, e, csvDelims(e), ref); err != nil {
			return fmt.Errorf("%s: %v", strings.ToUpper(f.String()), err)
		}
	default:
		return fmt.Errorf("generator bug: format %d", e.Format)
	}
	return nil
}

func checkExport(c ExportCase) error {
	for _, s := range c.Chunks {
		for _, str := range append(append([]string{s.ID, s.Text, s.DocTitle, s.SectionTitle, s.ParentID}, s.SectionPath...), append(s.ChildIDs, s.ElemTypes...)...) {
			if !utf8.ValidString(str) {
				return fmt.Errorf("generator bug: invalid UTF-8 in the case")
			}
		}
	}
	chunks := buildAll(c.Chunks)
	before := buildAll(c.Chunks)
	e := c.Export
	switch c.Mode {
	case "export":
		out, err := rag.NewExporterWithConfig(e.build()).ExportToString(chunks)
		if err != nil {
			return fmt.Errorf("ExportToString failed: %v", err)
		}
		if err := checkOutput(out, c.Chunks, e, false); err != nil {
			return err
		}
		// Export to a writer is the same operation
		var buf bytes.Buffer
		if err := rag.NewExporterWithConfig(e.build()).Export(chunks, &buf); err != nil || buf.String() != out {
			return fmt.Errorf("Export(w) differs from ExportToString (err=%v)", err)
		}
		// ... and so is the export to a file, also to a path that already holds a longer, earlier export
		dir, err := os.MkdirTemp("", "verif-c14-")
		if err != nil {
			return fmt.Errorf("INFRA: %v", err)
		}
		defer os.RemoveAll(dir)
		path := filepath.Join(dir, "export.out")
		if err := rag.NewChunkCollection(chunks).ExportToFile(path, e.build()); err != nil {
			return fmt.Errorf("ExportToFile failed: %v", err)
		}
		if got, _ := os.ReadFile(path); string(got) != out {
			return fmt.Errorf("ExportToFile wrote %d bytes that differ from ExportToString (%d bytes)", len(got), len(out))
		}
		if len(chunks) > 1 {
			fewer := chunks[:len(chunks)/2]
			want, err := rag.NewExporterWithConfig(e.build()).ExportToString(fewer)
			if err != nil {
				return fmt.Errorf("ExportToString failed: %v", err)
			}
			if err := rag.NewExporterWithConfig(e.build()).ExportToFile(fewer, path); err != nil {
				return fmt.Errorf("second ExportToFile failed: %v", err)
			}
			if got, _ := os.ReadFile(path); string(got) != want {
				return fmt.Errorf("ExportToFile over an earlier, longer export: the file holds %d bytes, the export of the %d chunks is %d bytes (stale tail?)", len(got), len(fewer), len(want))
			}
		}
	case "preset":
		cc := rag.NewChunkCollection(chunks)
		var out string
		var err error
		var pe ExportSpec
		switch e.Preset {
		case "ToJSON":
			out, err = cc.ToJSON()
			pe = specOf(rag.DefaultExportConfig())
			pe.Format = int(rag.ExportFormatJSON)
		case "ToJSONL":
			out, err = cc.ToJSONL()
			pe = specOf(rag.JSONLExportConfig())
		case "ToCSV":
			out, err = cc.ToCSV()
			pe = specOf(rag.CSVExportConfig())
		case "ToTSV":
			out, err = cc.ToTSV()
			pe = specOf(rag.TSVExportConfig())
		default:
			return fmt.Errorf("generator bug: preset %q", e.Preset)
		}
		if err != nil {
			return fmt.Errorf("%s failed: %v", e.Preset, err)
		}
		if err := checkOutput(out, c.Chunks, pe, false); err != nil {
			return fmt.Errorf("%s: %v", e.Preset, err)
		}
	case "batch":
		var batches []rag.ExportBatch
		err := rag.NewBatchExporterWithConfig(c.Batch, e.build()).Export(chunks, func(b rag.ExportBatch) error {
			batches = append(batches, b)
			return nil
		})
		if err != nil {
			return fmt.Errorf("BatchExporter.Export failed: %v", err)
		}
		pos := 0
		for i, b := range batches {
			if b.BatchNumber != i {
				return fmt.Errorf("batch %d has BatchNumber %d", i, b.BatchNumber)
			}
			if b.StartIndex != pos || b.EndIndex <= b.StartIndex || b.EndIndex > len(c.Chunks) || b.ChunkCount != b.EndIndex-b.StartIndex {
				return fmt.Errorf("batch %d covers [%d,%d) with ChunkCount %d; the previous batch ended at %d of %d chunks", i, b.StartIndex, b.EndIndex, b.ChunkCount, pos, len(c.Chunks))
			}
			if b.ChunkCount > c.Batch {
				return fmt.Errorf("batch %d holds %d chunks, batch size is %d", i, b.ChunkCount, c.Batch)
			}
			if err := checkOutput(b.Data, c.Chunks[b.StartIndex:b.EndIndex], e, false); err != nil {
				return fmt.Errorf("batch %d [%d,%d): %v", i, b.StartIndex, b.EndIndex, err)
			}
			pos = b.EndIndex
		}
		if pos != len(c.Chunks) {
			return fmt.Errorf("batches end at chunk %d of %d", pos, len(c.Chunks))
		}
		// the same batches written to numbered files
		dir, err := os.MkdirTemp("", "verif-c14b-")
		if err != nil {
			return fmt.Errorf("INFRA: %v", err)
		}
		defer os.RemoveAll(dir)
		if err := rag.NewBatchExporterWithConfig(c.Batch, e.build()).ExportToFiles(chunks, filepath.Join(dir, "part-%03d.out")); err != nil {
			return fmt.Errorf("BatchExporter.ExportToFiles failed: %v", err)
		}
		ents, _ := os.ReadDir(dir)
		if len(ents) != len(batches) {
			return fmt.Errorf("ExportToFiles wrote %d files for %d batches", len(ents), len(batches))
		}
		for i, b := range batches {
			got, err := os.ReadFile(filepath.Join(dir, fmt.Sprintf("part-%03d.out", i)))
			if err != nil || string(got) != b.Data {
				return fmt.Errorf("ExportToFiles: file of batch %d differs from the batch's data (err %v, %d vs %d bytes)", i, err, len(got), len(b.Data))
			}
		}
	case "stream":
		var buf bytes.Buffer
		se := rag.NewStreamExporterWithConfig(&buf, e.build())
		for i, ch := range chunks {
			if err := se.WriteChunk(ch, i); err != nil {
				return fmt.Errorf("StreamExporter.WriteChunk(%d) failed: %v", i, err)
			}
		}
		if err := se.Close(); err != nil {
			return fmt.Errorf("StreamExporter.Close failed: %v", err)
		}
		// export.go: "For streaming JSON, write as JSONL (one object per line)"
		if err := checkOutput(buf.String(), c.Chunks, e, true); err != nil {
			return fmt.Errorf("stream: %v", err)
		}
	default:
		return fmt.Errorf("generator bug: mode %q", c.Mode)
	}
	if !reflect.DeepEqual(chunks, before) {
		return fmt.Errorf("exporting modified the chunks")
	}
	return nil
}

// ---------------------------------------------------------------------------
// generators

var elemTypes = []string{"paragraph", "list", "table", "heading", "image", "Paragraph", "code"}

func genString(t *rapid.T, label string) string {
	switch rapid.IntRange(0, 9).Draw(t, label+"Kind") {
	case 0:
		return ""
	case 1, 2:
		return txt.Tame(t, label+"Tame", 1, 10)
	case 3:
		s, _ := txt.Gen(t, label+"Txt", "", 2, 12)
		return s
	default:
		return txt.Field(t, label+"Field", 6)
	}
}

func genList(t *rapid.T, label string, max int, pool []string) []string {
	n := rapid.IntRange(0, max).Draw(t, label+"N")
	var out []string
	for i := 0; i < n; i++ {
		if pool != nil && rapid.IntRange(0, 3).Draw(t, label+"Pool") > 0 {
			out = append(out, rapid.SampledFrom(pool).Draw(t, label+"El"))
		} else {
			out = append(out, genString(t, label+"El"))
		}
	}
	return out
}

func genChunk(t *rapid.T, i int) ChunkSpec {
	s := ChunkSpec{}
	s.ID = genString(t, "id")
	if rapid.Bool().Draw(t, "plainID") {
		s.ID = fmt.Sprintf("chunk_%d", i)
	}
	s.Text = genString(t, "text")
	if rapid.Bool().Draw(t, "hasMeta") {
		s.DocTitle = genString(t, "docTitle")
		s.SectionPath = genList(t, "path", 3, nil)
		s.SectionTitle = genString(t, "secTitle")
		s.HeadingLevel = rapid.IntRange(0, 6).Draw(t, "hl")
		s.PageStart = rapid.IntRange(0, 40).Draw(t, "ps")
		s.PageEnd = s.PageStart + rapid.IntRange(0, 3).Draw(t, "pspan")
		s.ChunkIndex = rapid.SampledFrom([]int{0, i, i, 7, 1000000}).Draw(t, "ci")
		s.TotalChunks = rapid.IntRange(0, 50).Draw(t, "tc")
		s.Level = rapid.IntRange(0, 3).Draw(t, "level")
		s.ParentID = genString(t, "parent")
		s.ChildIDs = genList(t, "children", 2, nil)
		s.ElemTypes = genList(t, "etypes", 3, elemTypes)
		s.HasTable = rapid.Bool().Draw(t, "ht")
		s.HasList = rapid.Bool().Draw(t, "hlst")
		s.HasImage = rapid.Bool().Draw(t, "hi")
		s.CharCount = rapid.IntRange(0, 5000).Draw(t, "cc")
		s.WordCount = rapid.IntRange(0, 900).Draw(t, "wc")
		s.Tokens = rapid.IntRange(0, 1300).Draw(t, "tok")
	}
	return s
}

func genChunks(t *rapid.T, max int) []ChunkSpec {
	n := rapid.IntRange(0, max).Draw(t, "nChunks")
	out := make([]ChunkSpec, n)
	for i := range out {
		out[i] = genChunk(t, i)
	}
	return out
}

var reservedCols = map[string]bool{"chunk_index": true, "document_title": true, "page_start": true, "page_end": true,
	"section_title": true, "has_table": true, "has_list": true, "has_image": true, "embeddings": true}

// genColName draws a column name that does not collide with the fixed columns
// (two columns with one name cannot be told apart by any reader).
func genColName(t *rapid.T, label string, def string, other string) string {
	var name string
	switch rapid.IntRange(0, 4).Draw(t, label+"Kind") {
	case 0, 1:
		name = def
	case 2:
		name = txt.Tame(t, label+"Tame", 1, 8)
	default:
		name = "c" + txt.Field(t, label+"Field", 3)
	}
	if name == "" || reservedCols[name] || strings.HasPrefix(name, "meta_") || name == other {
		name = def + "_" + label
	}
	return name
}

func genExportSpec(t *rapid.T) ExportSpec {
	e := ExportSpec{}
	e.Format = rapid.IntRange(0, 3).Draw(t, "format")
	e.IncludeMeta = rapid.IntRange(0, 3).Draw(t, "includeMeta") > 0
	e.IncludeText = rapid.IntRange(0, 4).Draw(t, "includeText") > 0
	e.IncludeEmb = rapid.Bool().Draw(t, "includeEmb")
	e.Flatten = rapid.Bool().Draw(t, "flatten")
	e.Header = rapid.IntRange(0, 3).Draw(t, "header") > 0
	e.Pretty = rapid.Bool().Draw(t, "pretty")
	if e.Format == int(rag.ExportFormatJSONL) {
		e.Pretty = vr.Want("jsonl-pretty", e.Pretty)
	}
	if rapid.IntRange(0, 2).Draw(t, "fieldsSet") == 0 {
		e.FieldsSet = true
		pool := append(append([]string{}, metaKeys...), "nosuchfield", "")
		e.Fields = rapid.SliceOfN(rapid.SampledFrom(pool), 0, 6).Draw(t, "fields")
	}
	e.Delim = int(rapid.SampledFrom([]rune{',', ',', '\t', ';', '|'}).Draw(t, "delim"))
	if e.Format == int(rag.ExportFormatTSV) && rapid.IntRange(0, 2).Draw(t, "tsvTab") > 0 {
		e.Delim = '\t'
	}
	if vr.Want("csv-delimiter-unset", rapid.IntRange(0, 7).Draw(t, "delimUnset") == 0) {
		e.Delim = 0
	}
	e.IDCol = genColName(t, "idCol", "chunk_id", "")
	e.TextCol = genColName(t, "textCol", "text", e.IDCol)
	return e
}

func advCount(specs []ChunkSpec) int {
	n := 0
	for _, s := range specs {
		for _, str := range append([]string{s.ID, s.Text, s.DocTitle, s.SectionTitle, s.ParentID}, s.SectionPath...) {
			if txt.IsAdversarial(str) {
				n++
			}
		}
	}
	return n
}

func genExport(t *rapid.T) ExportCase {
	c := ExportCase{Chunks: genChunks(t, 12)}
	c.Mode = rapid.SampledFrom([]string{"export", "export", "export", "preset", "batch", "batch", "stream"}).Draw(t, "mode")
	c.Export = genExportSpec(t)
	switch c.Mode {
	case "preset":
		c.Export = ExportSpec{Preset: rapid.SampledFrom([]string{"ToJSON", "ToJSONL", "ToCSV", "ToTSV"}).Draw(t, "preset")}
	case "batch":
		c.Batch = rapid.IntRange(1, len(c.Chunks)+2).Draw(t, "batch") // sizes >= 1 (DESIGN.md §8)
	case "stream":
		// the stream exporter documents JSONL/JSON only and refuses CSV/TSV with an error
		c.Export.Format = rapid.IntRange(0, 1).Draw(t, "streamFormat")
	}
	c.Labels = []string{"mode:" + c.Mode, fmt.Sprintf("chunks:%d", min(len(c.Chunks), 3))}
	if c.Mode == "preset" {
		c.Labels = append(c.Labels, "preset:"+c.Export.Preset)
	} else {
		e := c.Export
		c.Labels = append(c.Labels, "format:"+rag.ExportFormat(e.Format).String())
		if e.Format >= 2 {
			c.Labels = append(c.Labels, fmt.Sprintf("csv:header=%v", e.Header), fmt.Sprintf("csv:delim=%q", rune(e.Delim)))
		}
		if e.Pretty {
			c.Labels = append(c.Labels, "pretty")
		}
		if e.FieldsSet {
			c.Labels = append(c.Labels, "metadata-fields:set")
		}
		if !e.IncludeMeta {
			c.Labels = append(c.Labels, "metadata:off")
		}
		if !e.IncludeText {
			c.Labels = append(c.Labels, "text:off")
		}
	}
	if advCount(c.Chunks) > 0 {
		c.Labels = append(c.Labels, "adversarial-strings")
	}
	return c
}

func metaExport(c ExportCase) vr.Meta {
	return vr.Meta{FP: show2(c.Chunks) + show2(c.Export) + c.Mode + strconv.Itoa(c.Batch), NonTrivial: advCount(c.Chunks) > 0, Labels: c.Labels}
}

func show2(v any) string { b, _ := json.Marshal(v); return string(b) }

func init() { vr.Register("export", checkExport) }

func TestExport(t *testing.T) {
	vr.Prop(t, "export", vr.N(24000, 800000), genExport, metaExport, checkExport)
}

// ---------------------------------------------------------------------------
// check "vectordb"

type VectorCase struct {
	Chunks     []ChunkSpec `json:"chunks"`
	Embeddings [][]float64 `json:"embeddings"`      // one non-empty, finite vector per chunk
	Holes      []bool      `json:"holes,omitempty"` // second Weaviate export: chunks given an empty vector
	Short      int         `json:"short,omitempty"` // second Weaviate export: the embeddings slice ends this many chunks early
	Class      string      `json:"class"`
	Labels     []string    `json:"labels,omitempty"`
}

func floatEq(a, b float64) bool {
	// encoding/json round-trips float64 exactly; a relative tolerance of 1e-15 only guards the comparison itself
	if a == b {
		return true
	}
	return math.Abs(a-b) <= 1e-15*math.Max(math.Abs(a), math.Abs(b))
}

func vecEq(key string, got any, want []float64) error {
	arr, ok := got.([]any)
	if !ok || len(arr) != len(want) {
		return fmt.Errorf("%s = %s, want %d numbers", key, show(got), len(want))
	}
	for i := range want {
		f, ok := arr[i].(float64)
		if !ok || !floatEq(f, want[i]) {
			return fmt.Errorf("%s[%d] = %s, want %v", key, i, show(arr[i]), want[i])
		}
	}
	return nil
}

func subObj(obj map[string]any, key string) (map[string]any, error) {
	raw, ok := obj[key]
	if !ok || raw == nil {
		return map[string]any{}, nil
	}
	m, ok := raw.(map[string]any)
	if !ok {
		return nil, fmt.Errorf("%s is %s, want an object", key, show(raw))
	}
	return m, nil
}

func checkVector(c VectorCase) error {
	chunks := buildAll(c.Chunks)
	before := buildAll(c.Chunks)
	ee := rag.NewEmbeddingExporter()
	n := len(c.Chunks)

	// Pinecone: {"vectors":[{"id","values","metadata":{text,document_title,page_start,section_title}}]}
	var buf bytes.Buffer
	if err := ee.ExportForPinecone(chunks, c.Embeddings, &buf); err != nil {
		return fmt.Errorf("ExportForPinecone failed: %v", err)
	}
	top, err := decodeObj(buf.Bytes())
	if err != nil {
		return fmt.Errorf("Pinecone: not one JSON object: %v", err)
	}
	vecs, _ := top["vectors"].([]any)
	if top["vectors"] != nil && vecs == nil {
		return fmt.Errorf("Pinecone: vectors is %s", show(top["vectors"]))
	}
	if len(vecs) != n {
		return fmt.Errorf("Pinecone: %d vectors for %d chunks", len(vecs), n)
	}
	for i, v := range vecs {
		obj, ok := v.(map[string]any)
		if !ok {
			return fmt.Errorf("Pinecone: vector %d is %s", i, show(v))
		}
		s := c.Chunks[i]
		md, err := subObj(obj, "metadata")
		if err != nil {
			return fmt.Errorf("Pinecone vector %d: %v", i, err)
		}
		for _, e := range []error{jsonEq("id", obj["id"], s.ID), vecEq("values", obj["values"], c.Embeddings[i]),
			jsonEq("metadata.text", md["text"], s.Text), jsonEq("metadata.document_title", md["document_title"], s.DocTitle),
			jsonEq("metadata.page_start", md["page_start"], s.PageStart), jsonEq("metadata.section_title", md["section_title"], s.SectionTitle)} {
			if e != nil {
				return fmt.Errorf("Pinecone vector %d: %v", i, e)
			}
		}
	}

	// Chroma: {"ids":[…],"documents":[…],"embeddings":[[…]],"metadatas":[{…}]}
	buf.Reset()
	if err := ee.ExportForChroma(chunks, c.Embeddings, &buf); err != nil {
		return fmt.Errorf("ExportForChroma failed: %v", err)
	}
	top, err = decodeObj(buf.Bytes())
	if err != nil {
		return fmt.Errorf("Chroma: not one JSON object: %v", err)
	}
	arr := func(key string) ([]any, error) {
		if top[key] == nil && n == 0 {
			return nil, nil
		}
		a, ok := top[key].([]any)
		if !ok || len(a) != n {
			return nil, fmt.Errorf("Chroma: %s = %s, want %d entries", key, show(top[key]), n)
		}
		return a, nil
	}
	ids, err := arr("ids")
	if err != nil {
		return err
	}
	docs, err := arr("documents")
	if err != nil {
		return err
	}
	mds, err := arr("metadatas")
	if err != nil {
		return err
	}
	embs, err := arr("embeddings")
	if err != nil {
		return err
	}
	for i := 0; i < n; i++ {
		s := c.Chunks[i]
		md, ok := mds[i].(map[string]any)
		if !ok {
			return fmt.Errorf("Chroma: metadatas[%d] is %s", i, show(mds[i]))
		}
		for _, e := range []error{jsonEq("ids", ids[i], s.ID), jsonEq("documents", docs[i], s.Text), vecEq("embeddings", embs[i], c.Embeddings[i]),
			jsonEq("document_title", md["document_title"], s.DocTitle), jsonEq("page_start", md["page_start"], s.PageStart),
			jsonEq("section_title", md["section_title"], s.SectionTitle), jsonEq("chunk_index", md["chunk_index"], s.ChunkIndex)} {
			if e != nil {
				return fmt.Errorf("Chroma record %d: %v", i, e)
			}
		}
	}

	// Weaviate: one object per line {"class","id","properties":{content,documentTitle,pageStart,sectionTitle,chunkIndex},"vector"}
	buf.Reset()
	if err := ee.ExportForWeaviate(chunks, c.Embeddings, c.Class, &buf); err != nil {
		return fmt.Errorf("ExportForWeaviate failed: %v", err)
	}
	recs, err := parseJSONL(buf.String())
	if err != nil {
		return fmt.Errorf("Weaviate: %v", err)
	}
	if len(recs) != n {
		return fmt.Errorf("Weaviate: %d objects for %d chunks", len(recs), n)
	}
	for i, obj := range recs {
		s := c.Chunks[i]
		p, err := subObj(obj, "properties")
		if err != nil {
			return fmt.Errorf("Weaviate object %d: %v", i, err)
		}
		for _, e := range []error{jsonEq("class", obj["class"], c.Class), jsonEq("id", obj["id"], s.ID), vecEq("vector", obj["vector"], c.Embeddings[i]),
			jsonEq("content", p["content"], s.Text), jsonEq("documentTitle", p["documentTitle"], s.DocTitle), jsonEq("pageStart", p["pageStart"], s.PageStart),
			jsonEq("sectionTitle", p["sectionTitle"], s.SectionTitle), jsonEq("chunkIndex", p["chunkIndex"], s.ChunkIndex)} {
			if e != nil {
				return fmt.Errorf("Weaviate object %d: %v", i, e)
			}
		}
	}

	// Weaviate again with embeddings missing for some chunks (an empty vector, or a slice of embeddings shorter than
	// the chunks: the exporter documents neither as an error and writes such a chunk without vector): every object
	// carries its own chunk's vector or none - never another chunk's (round 11)
	if len(c.Holes) == n && n > 0 {
		var emb2 [][]float64
		for i := 0; i < n-c.Short; i++ {
			if c.Holes[i] {
				if i%2 == 0 {
					emb2 = append(emb2, nil)
				} else {
					emb2 = append(emb2, []float64{})
				}
			} else {
				emb2 = append(emb2, c.Embeddings[i])
			}
		}
		buf.Reset()
		if err := ee.ExportForWeaviate(chunks, emb2, c.Class, &buf); err != nil {
			return fmt.Errorf("ExportForWeaviate (some chunks without embedding) failed: %v", err)
		}
		recs, err := parseJSONL(buf.String())
		if err != nil {
			return fmt.Errorf("Weaviate (some chunks without embedding): %v", err)
		}
		if len(recs) != n {
			return fmt.Errorf("Weaviate (some chunks without embedding): %d objects for %d chunks", len(recs), n)
		}
		for i, obj := range recs {
			if e := jsonEq("id", obj["id"], c.Chunks[i].ID); e != nil {
				return fmt.Errorf("Weaviate (some chunks without embedding) object %d: %v", i, e)
			}
			if i < len(emb2) && len(emb2[i]) > 0 {
				if e := vecEq("vector", obj["vector"], emb2[i]); e != nil {
					return fmt.Errorf("Weaviate (some chunks without embedding) object %d: %v", i, e)
				}
				continue
			}
			if v, ok := obj["vector"]; ok && v != nil {
				if arr, isArr := v.([]any); !isArr || len(arr) > 0 {
					return fmt.Errorf("Weaviate object %d: chunk %q was given no embedding, its object carries vector %s", i, c.Chunks[i].ID, show(v))
				}
			}
		}
	}

	// PrepareForVectorDB: records serialised with encoding/json
	prep := ee.PrepareForVectorDB(chunks)
	if len(prep) != n {
		return fmt.Errorf("PrepareForVectorDB: %d records for %d chunks", len(prep), n)
	}
	for i, r := range prep {
		b, err := json.Marshal(r)
		if err != nil {
			return fmt.Errorf("PrepareForVectorDB record %d does not serialise: %v", i, err)
		}
		obj, err := decodeObj(b)
		if err != nil {
			return err
		}
		s := c.Chunks[i]
		md, err := subObj(obj, "metadata")
		if err != nil {
			return err
		}
		for _, e := range []error{jsonEq("id", obj["id"], s.ID), jsonEq("text", obj["text"], s.Text),
			jsonEq("document_title", md["document_title"], s.DocTitle), jsonEq("page_start", md["page_start"], s.PageStart),
			jsonEq("chunk_index", md["chunk_index"], s.ChunkIndex), jsonEq("section_title", md["section_title"], s.SectionTitle),
			jsonEq("section_path", md["section_path"], s.SectionPath), jsonEq("element_types", md["element_types"], s.ElemTypes)} {
			if e != nil {
				return fmt.Errorf("PrepareForVectorDB record %d: %v", i, e)
			}
		}
	}
	if !reflect.DeepEqual(chunks, before) {
		return fmt.Errorf("exporting modified the chunks")
	}
	return nil
}

var floatPool = []float64{0, 1, -1, 0.5, 0.1, -0.3333333333333333, 1e-7, 1e21, 1e-320, math.MaxFloat64, -math.MaxFloat64, math.SmallestNonzeroFloat64, 123456789.125, math.Pi}

func genVector(t *rapid.T) VectorCase {
	c := VectorCase{Chunks: genChunks(t, 8)}
	dim := rapid.IntRange(1, 6).Draw(t, "dim")
	for range c.Chunks {
		v := make([]float64, dim)
		for j := range v {
			if rapid.Bool().Draw(t, "poolFloat") {
				v[j] = rapid.SampledFrom(floatPool).Draw(t, "f")
			} else {
				v[j] = rapid.Float64Range(-1, 1).Draw(t, "f")
			}
		}
		c.Embeddings = append(c.Embeddings, v)
	}
	if c.Embeddings == nil {
		c.Embeddings = [][]float64{}
	}
	c.Class = genString(t, "class")
	c.Labels = []string{fmt.Sprintf("chunks:%d", min(len(c.Chunks), 3))}
	// drawn last, so that the cases of earlier rounds stay what they were
	holes := 0
	for range c.Chunks {
		h := rapid.IntRange(0, 2).Draw(t, "noEmbedding") == 0
		c.Holes = append(c.Holes, h)
		if h {
			holes++
		}
	}
	if len(c.Chunks) > 0 {
		c.Short = rapid.IntRange(0, len(c.Chunks)).Draw(t, "embeddingsShortBy") % (len(c.Chunks) + 1)
		if rapid.Bool().Draw(t, "allEmbeddingsPresent") {
			c.Short = 0
		}
	}
	if holes > 0 || c.Short > 0 {
		c.Labels = append(c.Labels, "some-chunks-without-embedding")
	}
	if advCount(c.Chunks) > 0 {
		c.Labels = append(c.Labels, "adversarial-strings")
	}
	return c
}

func metaVector(c VectorCase) vr.Meta {
	return vr.Meta{FP: show2(c.Chunks) + show2(c.Embeddings) + c.Class, NonTrivial: advCount(c.Chunks) > 0, Labels: c.Labels}
}

func init() { vr.Register("vectordb", checkVector) }

func TestVectorDB(t *testing.T) {
	vr.Prop(t, "vectordb", vr.N(8000, 200000), genVector, metaVector, checkVector)
}

// ---------------------------------------------------------------------------
// check "filter"

type FilterSpec struct {
	Kind string `json:"kind"`
	S    string `json:"s,omitempty"`
	A    int    `json:"a,omitempty"`
	B    int    `json:"b,omitempty"`
}

type FilterCase struct {
	Chunks  []ChunkSpec  `json:"chunks"`
	Filters []FilterSpec `json:"filters"`
	Labels  []string     `json:"labels,omitempty"`
}

func asciiFold(s string) string {
	b := []byte(s)
	for i, c := range b {
		if c >= 'A' && c <= 'Z' {
			b[i] = c + 32
		}
	}
	return string(b)
}

// canonFold maps every rune to the smallest member of its simple case-folding orbit.
func canonFold(s string) string {
	return strings.Map(func(r rune) rune {
		m := r
		for f := unicode.SimpleFold(r); f != r; f = unicode.SimpleFold(f) {
			if f < m {
				m = f
			}
		}
		return m
	}, s)
}

// verdicts of a reference predicate: must be kept / may be kept
type verdict struct{ must, may bool }

func yes(b bool) verdict { return verdict{b, b} }

// ref is the reference reading of each filter, from the doc comments in metadata.go.
func (f FilterSpec) ref(s ChunkSpec, idx int) verdict {
	switch f.Kind {
	case "section": // "FilterBySection returns chunks in a specific section" / IsInSection: title or any path element
		in := s.SectionTitle == f.S
		for _, p := range s.SectionPath {
			in = in || p == f.S
		}
		return yes(in)
	case "page": // "chunks on a specific page" / IsOnPage: "spans a given page"
		return yes(s.PageStart <= f.A && f.A <= s.PageEnd)
	case "pagerange":
		// "chunks within a page range": entirely inside [A,B] certainly qualifies, no common page certainly
		// does not; a partial overlap may be read either way
		inside := s.PageStart >= f.A && s.PageEnd <= f.B
		overlap := s.PageEnd >= f.A && s.PageStart <= f.B
		return verdict{must: inside && overlap, may: overlap}
	case "elementtype": // "chunks containing a specific element type": exact match certainly, case-insensitive match possibly
		exact, fold := false, false
		for _, et := range s.ElemTypes {
			exact = exact || et == f.S
			fold = fold || strings.EqualFold(et, f.S)
		}
		return verdict{must: exact, may: exact || fold}
	case "tables":
		return yes(s.HasTable)
	case "lists":
		return yes(s.HasList)
	case "images":
		return yes(s.HasImage)
	case "mintokens": // "at least N estimated tokens"
		return yes(s.Tokens >= f.A)
	case "maxtokens": // "at most N estimated tokens"
		return yes(s.Tokens <= f.A)
	case "search":
		// "containing a keyword (case-insensitive)": ASCII case folding is the least every reading includes;
		// Unicode simple folding, ToLower and ToUpper are the readings that may add matches
		must := strings.Contains(asciiFold(s.Text), asciiFold(f.S))
		may := must || strings.Contains(canonFold(s.Text), canonFold(f.S)) ||
			strings.Contains(strings.ToLower(s.Text), strings.ToLower(f.S)) ||
			strings.Contains(strings.ToUpper(s.Text), strings.ToUpper(f.S))
		return verdict{must, may}
	case "mod": // Filter(predicate): position-independent custom predicate
		return yes(f.B > 0 && (s.ChunkIndex+len(s.Text))%f.B == f.A%f.B)
	case "none":
		return yes(false)
	case "all":
		return yes(true)
	}
	panic("unknown filter " + f.Kind)
}

func (f FilterSpec) apply(cc *rag.ChunkCollection) *rag.ChunkCollection {
	switch f.Kind {
	case "section":
		return cc.FilterBySection(f.S)
	case "page":
		return cc.FilterByPage(f.A)
	case "pagerange":
		return cc.FilterByPageRange(f.A, f.B)
	case "elementtype":
		return cc.FilterByElementType(f.S)
	case "tables":
		return cc.FilterWithTables()
	case "lists":
		return cc.FilterWithLists()
	case "images":
		return cc.FilterWithImages()
	case "mintokens":
		return cc.FilterByMinTokens(f.A)
	case "maxtokens":
		return cc.FilterByMaxTokens(f.A)
	case "search":
		return cc.Search(f.S)
	case "mod":
		return cc.Filter(func(c *rag.Chunk) bool {
			return f.B > 0 && (c.Metadata.ChunkIndex+len(c.Text))%f.B == f.A%f.B
		})
	case "none":
		return cc.Filter(func(*rag.Chunk) bool { return false })
	case "all":
		return cc.Filter(func(*rag.Chunk) bool { return true })
	}
	panic("unknown filter " + f.Kind)
}

func checkFilter(c FilterCase) error {
	chunks := buildAll(c.Chunks)
	pristine := buildAll(c.Chunks)
	index := map[*rag.Chunk]int{}
	for i, ch := range chunks {
		index[ch] = i
	}
	orig := append([]*rag.Chunk(nil), chunks...)
	cc := rag.NewChunkCollection(chunks)
	cur := cc
	curIdx := make([]int, len(chunks))
	for i := range curIdx {
		curIdx[i] = i
	}
	for step, f := range c.Filters {
		next := f.apply(cur)
		if next == nil {
			return fmt.Errorf("step %d (%s): nil collection", step, f.Kind)
		}
		// the result must be a subsequence of the input, with the same chunk objects
		var got []int
		pos := 0
		for _, ch := range next.Chunks {
			i, ok := index[ch]
			if !ok {
				return fmt.Errorf("step %d (%s): the result holds a chunk that is not one of the originals", step, f.Kind)
			}
			for pos < len(curIdx) && curIdx[pos] != i {
				pos++
			}
			if pos == len(curIdx) {
				return fmt.Errorf("step %d (%s %q %d %d): chunk %d is out of order, repeated or was not in the input %v; result %v", step, f.Kind, f.S, f.A, f.B, i, curIdx, idxOf(next.Chunks, index))
			}
			pos++
			got = append(got, i)
		}
		in := map[int]bool{}
		for _, i := range got {
			in[i] = true
		}
		for _, i := range curIdx {
			v := f.ref(c.Chunks[i], i)
			if v.must && !in[i] {
				return fmt.Errorf("step %d (%s %q %d %d): chunk %d satisfies the predicate but was dropped (input %v, result %v)", step, f.Kind, f.S, f.A, f.B, i, curIdx, got)
			}
			if !v.may && in[i] {
				return fmt.Errorf("step %d (%s %q %d %d): chunk %d does not satisfy the predicate but was kept (input %v, result %v)", step, f.Kind, f.S, f.A, f.B, i, curIdx, got)
			}
		}
		if f.Kind == "pagerange" {
			// "chunks within a page range" has two coherent readings - contained in the range, or sharing a page with
			// it - and the result must follow ONE of them for the whole collection (a predicate that keeps some
			// partially overlapping chunks and drops others, e.g. by looking at the end points only, follows neither)
			contained, sharing := true, true
			for _, i := range curIdx {
				s := c.Chunks[i]
				inside := s.PageStart >= f.A && s.PageEnd <= f.B
				overlap := s.PageEnd >= f.A && s.PageStart <= f.B
				contained = contained && in[i] == (inside && overlap)
				sharing = sharing && in[i] == overlap
			}
			if !contained && !sharing {
				return fmt.Errorf("step %d (pagerange %d-%d): the result %v of input %v is neither the chunks contained in the range nor the chunks sharing a page with it", step, f.A, f.B, got, curIdx)
			}
		}
		cur, curIdx = next, got
	}
	// originals untouched
	if len(cc.Chunks) != len(orig) {
		return fmt.Errorf("filtering changed the original collection from %d to %d chunks", len(orig), len(cc.Chunks))
	}
	for i := range orig {
		if cc.Chunks[i] != orig[i] {
			return fmt.Errorf("filtering replaced chunk %d of the original collection", i)
		}
		if !reflect.DeepEqual(orig[i], pristine[i]) {
			return fmt.Errorf("filtering modified chunk %d", i)
		}
	}
	return nil
}

func idxOf(chs []*rag.Chunk, index map[*rag.Chunk]int) []int {
	out := make([]int, len(chs))
	for i, c := range chs {
		out[i] = index[c]
	}
	return out
}

var filterKinds = []string{"section", "page", "pagerange", "elementtype", "tables", "lists", "images", "mintokens", "maxtokens", "search", "search", "mod", "none", "all"}

func genFilter(t *rapid.T) FilterCase {
	c := FilterCase{Chunks: genChunks(t, 10)}
	// strings that occur in the chunks, so that filters select something
	var titles, words, types []string
	for _, s := range c.Chunks {
		titles = append(titles, s.SectionTitle)
		titles = append(titles, s.SectionPath...)
		types = append(types, s.ElemTypes...)
		if s.Text != "" {
			r := []rune(s.Text)
			a := rapid.IntRange(0, len(r)-1).Draw(t, "subA")
			b := rapid.IntRange(a, min(len(r), a+4)).Draw(t, "subB")
			words = append(words, string(r[a:b]))
		}
	}
	pick := func(label string, pool []string) string {
		if len(pool) > 0 && rapid.IntRange(0, 3).Draw(t, label+"FromPool") > 0 {
			return rapid.SampledFrom(pool).Draw(t, label)
		}
		return genString(t, label)
	}
	n := rapid.IntRange(1, 3).Draw(t, "nFilters")
	for i := 0; i < n; i++ {
		f := FilterSpec{Kind: rapid.SampledFrom(filterKinds).Draw(t, "kind")}
		switch f.Kind {
		case "section":
			f.S = pick("title", titles)
		case "page":
			f.A = rapid.IntRange(-1, 45).Draw(t, "page")
		case "pagerange":
			f.A = rapid.IntRange(-1, 45).Draw(t, "from")
			f.B = f.A + rapid.IntRange(0, 10).Draw(t, "span") // from <= to: an inverted range has no agreed meaning
		case "elementtype":
			f.S = pick("etype", append(types, elemTypes...))
			switch rapid.IntRange(0, 3).Draw(t, "etypeCase") {
			case 0:
				f.S = strings.ToUpper(f.S)
			case 1:
				f.S = strings.Title(f.S)
			}
		case "mintokens", "maxtokens":
			f.A = rapid.IntRange(-1, 1400).Draw(t, "tokens")
		case "search":
			f.S = pick("kw", words)
			switch rapid.IntRange(0, 3).Draw(t, "kwCase") {
			case 0:
				f.S = strings.ToUpper(f.S)
			case 1:
				f.S = strings.ToLower(f.S)
			}
			if !utf8.ValidString(f.S) {
				f.S = "x"
			}
		case "mod":
			f.B = rapid.IntRange(1, 4).Draw(t, "modB")
			f.A = rapid.IntRange(0, 3).Draw(t, "modA")
		}
		c.Filters = append(c.Filters, f)
		c.Labels = append(c.Labels, "filter:"+f.Kind)
	}
	c.Labels = append(c.Labels, fmt.Sprintf("chain:%d", n), fmt.Sprintf("chunks:%d", min(len(c.Chunks), 3)))
	return c
}

func metaFilter(c FilterCase) vr.Meta {
	// non-trivial: at least one chunk is kept and one is dropped by the first filter
	kept, dropped := false, false
	for i, s := range c.Chunks {
		if len(c.Filters) > 0 {
			if c.Filters[0].ref(s, i).must {
				kept = true
			} else {
				dropped = true
			}
		}
	}
	sort.Strings(c.Labels)
	return vr.Meta{FP: show2(c.Chunks) + show2(c.Filters), NonTrivial: kept && dropped, Labels: c.Labels}
}

func init() { vr.Register("filter", checkFilter) }

func TestFilter(t *testing.T) {
	vr.Prop(t, "filter", vr.N(12000, 400000), genFilter, metaFilter, checkFilter)
}

var _ = io.EOF
