// C05 — Stream decoding exactly inverts every supported encoding.
//
// Generator: plaintext x filter chain (1–3 of Flate/ASCIIHex/ASCII85, full and
// abbreviated names) x per-filter parameters (predictor, geometry, per-row PNG
// tags) x DecodeParms spelling; the bytes are produced by the independent
// encoders in gen/filt. Oracle: (&core.Stream{Dict, Data}).Decode() == plaintext;
// for inputs that are invalid by construction: an error.
package c05

import (
	"bytes"
	"compress/zlib"
	"fmt"
	"io"
	"strings"
	"testing"

	"github.com/tsawler/tabula/core"
	"pgregory.net/rapid"

	"verif/harness/gen/filt"
	"verif/harness/vr"
)

func TestMain(m *testing.M) { vr.Main(m) }

// Parm is one DecodeParms entry; nil pointer == PDF null / absent.
type Parm struct {
	Predictor int `json:"predictor,omitempty"` // 0 = key absent
	Colors    int `json:"colors,omitempty"`    // 0 = key absent (default 1)
	Columns   int `json:"columns,omitempty"`   // 0 = key absent (default 1)
	BPC       int `json:"bpc,omitempty"`       // 0 = key absent (default 8)
}

type Case struct {
	Plain     []byte   `json:"plain"`
	Encoded   []byte   `json:"encoded"`
	Filters   []string `json:"filters"`    // decode order, as spelled in /Filter
	AsName    bool     `json:"as_name"`    // single filter written as a name instead of a 1-element array
	ParmsForm string   `json:"parms_form"` // absent | null | dict | array
	Parms     []*Parm  `json:"parms"`      // per filter; for form "dict" only Parms[0] is used
	WantErr   bool     `json:"want_err"`   // the data is invalid by construction: Decode must fail
	Why       string   `json:"why,omitempty"`
	Labels    []string `json:"labels,omitempty"`
}

func (p *Parm) dict() core.Object {
	if p == nil {
		return core.Null{}
	}
	d := core.Dict{}
	if p.Predictor != 0 {
		d["Predictor"] = core.Int(p.Predictor)
	}
	if p.Colors != 0 {
		d["Colors"] = core.Int(p.Colors)
	}
	if p.Columns != 0 {
		d["Columns"] = core.Int(p.Columns)
	}
	if p.BPC != 0 {
		d["BitsPerComponent"] = core.Int(p.BPC)
	}
	return d
}

func (c Case) stream() *core.Stream {
	d := core.Dict{}
	if c.AsName && len(c.Filters) == 1 {
		d["Filter"] = core.Name(c.Filters[0])
	} else {
		arr := core.Array{}
		for _, f := range c.Filters {
			arr = append(arr, core.Name(f))
		}
		d["Filter"] = arr
	}
	switch c.ParmsForm {
	case "null":
		d["DecodeParms"] = core.Null{}
	case "dict":
		d["DecodeParms"] = c.Parms[0].dict()
	case "array":
		arr := core.Array{}
		for _, p := range c.Parms {
			arr = append(arr, p.dict())
		}
		d["DecodeParms"] = arr
	}
	d["Length"] = core.Int(len(c.Encoded))
	return &core.Stream{Dict: d, Data: c.Encoded}
}

func checkCase(c Case) error {
	in := append([]byte(nil), c.Encoded...)
	got, err := c.stream().Decode()
	if !bytes.Equal(in, c.Encoded) {
		return fmt.Errorf("Decode modified its input buffer")
	}
	if c.WantErr {
		if err == nil {
			return fmt.Errorf("undecodable data (%s) decoded without error to %d bytes %s", c.Why, len(got), short(got))
		}
		return nil
	}
	if err != nil {
		return fmt.Errorf("Decode failed on conforming data: %v", err)
	}
	if !bytes.Equal(got, c.Plain) {
		return fmt.Errorf("decoded bytes differ: got %d bytes %s, want %d bytes %s (first difference at %d)",
			len(got), short(got), len(c.Plain), short(c.Plain), firstDiff(got, c.Plain))
	}
	return nil
}

func short(b []byte) string {
	if len(b) > 24 {
		return fmt.Sprintf("%x…", b[:24])
	}
	return fmt.Sprintf("%x", b)
}

func firstDiff(a, b []byte) int {
	n := len(a)
	if len(b) < n {
		n = len(b)
	}
	for i := 0; i < n; i++ {
		if a[i] != b[i] {
			return i
		}
	}
	return n
}

func init() { vr.Register("decode", checkCase) }

// ---------------------------------------------------------------------------
// generator

var kinds = []string{"flate", "hex", "a85"}
var spell = map[string][]string{
	"flate": {"FlateDecode", "Fl"},
	"hex":   {"ASCIIHexDecode", "AHx"},
	"a85":   {"ASCII85Decode", "A85"},
}

var wsBytes = []string{" ", "\n", "\r\n", "\t", "\r", "\f", "\x00", " \n"}

func kindOf(name string) string {
	switch name {
	case "FlateDecode", "Fl":
		return "flate"
	case "ASCIIHexDecode", "AHx":
		return "hex"
	}
	return "a85"
}

// genPlain draws the plaintext. If rowLen > 0 the result is a whole number of
// rows of that length.
func genPlain(t *rapid.T, rowLen int) ([]byte, string) {
	class := rapid.SampledFrom([]string{"random", "random", "zeros", "ff", "periodic", "text", "ramp", "big", "longrun"}).Draw(t, "plainClass")
	var n int
	switch class {
	case "longrun":
		// long and extremely compressible (an empty image, a blank form): expansion ratios of 1000:1 and more;
		// 260 or more zero bytes in a row for the 'z' groups of ASCII85
		n = rapid.SampledFrom([]int{260, 1024, 16384, 65536, 262144}).Draw(t, "runLen")
		class = rapid.SampledFrom([]string{"zeros", "ff", "periodic"}).Draw(t, "runClass")
	case "big":
		n = rapid.IntRange(4096, 65536).Draw(t, "plainLen")
	default:
		n = rapid.IntRange(0, 300).Draw(t, "plainLen")
	}
	if rowLen > 0 {
		rows := n / rowLen
		if rows == 0 && n > 0 {
			rows = 1
		}
		if rows > 2000 {
			rows = 2000
		}
		n = rows * rowLen
	}
	b := make([]byte, n)
	switch class {
	case "random":
		copy(b, rapid.SliceOfN(rapid.Byte(), n, n).Draw(t, "plain"))
	case "zeros":
	case "ff":
		for i := range b {
			b[i] = 0xFF
		}
	case "periodic":
		per := rapid.SliceOfN(rapid.Byte(), 1, 7).Draw(t, "period")
		for i := range b {
			b[i] = per[i%len(per)]
		}
	case "text":
		s := "BT /F1 12 Tf 72 700 Td (Hello, World) Tj ET\n"
		for i := range b {
			b[i] = s[i%len(s)]
		}
	case "ramp":
		st := rapid.IntRange(1, 9).Draw(t, "step")
		for i := range b {
			b[i] = byte(i * st)
		}
	case "big":
		seedv := rapid.SliceOfN(rapid.Byte(), 16, 64).Draw(t, "bigseed")
		x := uint32(2166136261)
		for i := range b {
			x = (x ^ uint32(seedv[i%len(seedv)])) * 16777619
			if i%97 < 40 {
				b[i] = byte(x >> 24)
			} else {
				b[i] = seedv[i%len(seedv)]
			}
		}
	}
	return b, class
}

type stage struct {
	kind  string
	name  string
	parm  *Parm
	tags  []int
	level int
	hex   filt.HexOpts
	a85   filt.A85Opts
}

func genWS(t *rapid.T, label string) (int, string) {
	if !rapid.Bool().Draw(t, label+"UseWS") {
		return 0, ""
	}
	every := rapid.IntRange(1, 80).Draw(t, label+"WSEvery")
	return every, rapid.SampledFrom(wsBytes).Draw(t, label+"WS")
}

func genStage(t *rapid.T, i int) stage {
	st := stage{}
	st.kind = rapid.SampledFrom(kinds).Draw(t, fmt.Sprintf("kind%d", i))
	st.name = rapid.SampledFrom(spell[st.kind]).Draw(t, fmt.Sprintf("name%d", i))
	switch st.kind {
	case "flate":
		st.level = rapid.SampledFrom([]int{-2, -1, 0, 1, 6, 9}).Draw(t, "level")
		pk := rapid.SampledFrom([]string{"none", "none", "p1", "tiff", "png", "png", "png"}).Draw(t, "predKind")
		switch pk {
		case "none":
			if rapid.Bool().Draw(t, "emptyParm") {
				st.parm = &Parm{} // an empty dictionary
			}
		case "p1":
			st.parm = &Parm{Predictor: 1, Colors: rapid.IntRange(0, 4).Draw(t, "colors"), Columns: rapid.IntRange(0, 64).Draw(t, "columns")}
		case "tiff", "png":
			p := &Parm{Predictor: 2}
			if pk == "png" {
				p.Predictor = rapid.IntRange(10, 15).Draw(t, "pngPredictor")
			}
			colors := rapid.IntRange(1, 4).Draw(t, "colors")
			columns := rapid.IntRange(1, 64).Draw(t, "columns")
			p.Colors, p.Columns = colors, columns
			// defaults may be left out when they equal the default value
			if colors == 1 && rapid.Bool().Draw(t, "omitColors") {
				p.Colors = 0
			}
			if columns == 1 && rapid.Bool().Draw(t, "omitColumns") {
				p.Columns = 0
			}
			if rapid.Bool().Draw(t, "explicitBPC") {
				p.BPC = 8
			}
			st.parm = p
			if pk == "png" {
				st.tags = rapid.SliceOfN(rapid.IntRange(0, 4), 1, 8).Draw(t, "rowTags")
			}
		}
	case "hex":
		st.hex.Upper = rapid.SliceOfN(rapid.Bool(), 1, 5).Draw(t, "hexUpper")
		st.hex.WSEvery, st.hex.WS = genWS(t, "hex")
		st.hex.EOD = rapid.IntRange(0, 9).Draw(t, "hexEOD") > 0
		st.hex.DropLast = rapid.Bool().Draw(t, "hexDropLast")
		st.hex.Trail = rapid.SampledFrom([]string{"", "\n", "\r\n", " "}).Draw(t, "hexTrail")
	case "a85":
		st.a85.WSEvery, st.a85.WS = genWS(t, "a85")
		st.a85.LeadWS = rapid.SampledFrom([]string{"", "", "\n", " \t"}).Draw(t, "a85Lead")
		st.a85.EOD = rapid.IntRange(0, 9).Draw(t, "a85EOD") > 0
		st.a85.Trail = rapid.SampledFrom([]string{"", "\n", "\r\n", " "}).Draw(t, "a85Trail")
	}
	return st
}

func (st stage) geometry() (rowLen, colors int) {
	if st.parm == nil || (st.parm.Predictor != 2 && st.parm.Predictor < 10) {
		return 0, 1
	}
	colors = st.parm.Colors
	if colors == 0 {
		colors = 1
	}
	columns := st.parm.Columns
	if columns == 0 {
		columns = 1
	}
	return colors * columns, colors
}

// encode applies one stage in the encoding direction.
func (st stage) encode(data []byte) []byte {
	switch st.kind {
	case "flate":
		rowLen, colors := st.geometry()
		if rowLen > 0 {
			if st.parm.Predictor == 2 {
				data = filt.TIFFForward(data, rowLen, colors)
			} else {
				data = filt.PNGForward(data, rowLen, colors, st.tags)
			}
		}
		return filt.Zlib(data, st.level)
	case "hex":
		return filt.HexEncode(data, st.hex)
	default:
		return filt.A85Encode(data, st.a85)
	}
}

// fitGeometry makes a predictor stage's row length divide n by shrinking the
// geometry (construction instead of rejection).
func fitGeometry(p *Parm, n int) {
	colors := p.Colors
	if colors == 0 {
		colors = 1
	}
	columns := p.Columns
	if columns == 0 {
		columns = 1
	}
	for n%(colors*columns) != 0 || (n == 0 && false) {
		if columns > 1 {
			columns--
		} else {
			colors--
			columns = 64
			if colors == 0 {
				colors, columns = 1, 1
				break
			}
		}
	}
	if p.Colors != 0 || colors != 1 {
		p.Colors = colors
	}
	if p.Columns != 0 || columns != 1 {
		p.Columns = columns
	}
}

func genCase(t *rapid.T) Case {
	n := rapid.SampledFrom([]int{1, 1, 2, 2, 3}).Draw(t, "chainLen")
	stages := make([]stage, n)
	for i := range stages {
		stages[i] = genStage(t, i)
	}
	// the last filter of the decode chain is the first encoder applied, and it sees the plaintext
	rowLen, _ := stages[n-1].geometry()
	plain, class := genPlain(t, rowLen)
	data := plain
	for i := n - 1; i >= 0; i-- {
		if rl, _ := stages[i].geometry(); rl > 0 && len(data)%rl != 0 {
			fitGeometry(stages[i].parm, len(data))
		}
		data = stages[i].encode(data)
	}
	c := Case{Plain: plain, Encoded: data}
	anyParm := false
	for _, st := range stages {
		c.Filters = append(c.Filters, st.name)
		c.Parms = append(c.Parms, st.parm)
		if st.parm != nil {
			anyParm = true
		}
	}
	c.AsName = n == 1 && rapid.Bool().Draw(t, "asName")
	// DecodeParms spelling (ISO 32000-1 Table 5): a dictionary when there is one filter,
	// otherwise an array with one entry per filter, null for filters without parameters.
	// The array form is only generated when /Filter is an array too (the pairing every
	// producer uses); a name paired with an array is not a spelling Table 5 describes.
	switch {
	case !anyParm:
		c.ParmsForm = rapid.SampledFrom([]string{"absent", "absent", "null", "array"}).Draw(t, "parmsForm")
	case n == 1:
		c.ParmsForm = rapid.SampledFrom([]string{"dict", "array"}).Draw(t, "parmsForm")
	default:
		c.ParmsForm = "array"
	}
	if c.AsName && c.ParmsForm == "array" {
		if anyParm {
			c.ParmsForm = "dict"
		} else {
			c.ParmsForm = "absent"
		}
	}
	c.Labels = []string{"plain:" + class, fmt.Sprintf("chain:%d", n), "parms:" + c.ParmsForm}
	for _, st := range stages {
		l := "filter:" + st.name
		if rl, _ := st.geometry(); rl > 0 {
			if st.parm.Predictor == 2 {
				l = "predictor:tiff"
			} else {
				l = "predictor:png"
			}
		}
		c.Labels = append(c.Labels, l)
	}
	return c
}

func meta(c Case) vr.Meta {
	nt := len(c.Filters) >= 2
	for _, p := range c.Parms {
		if p != nil && p.Predictor >= 2 {
			colors, columns := p.Colors, p.Columns
			if colors == 0 {
				colors = 1
			}
			if columns == 0 {
				columns = 1
			}
			if colors > 1 || len(c.Plain) >= 2*colors*columns {
				nt = true
			}
		}
	}
	if c.WantErr {
		nt = true
	}
	return vr.Meta{FP: fmt.Sprintf("%x|%v|%s|%v", c.Encoded, c.Filters, c.ParmsForm, c.WantErr), NonTrivial: nt, Labels: c.Labels}
}

func TestRoundTrip(t *testing.T) {
	vr.Prop(t, "decode", vr.N(20000, 400000), genCase, meta, checkCase)
}

// ---------------------------------------------------------------------------
// error clause: inputs that are invalid by construction

func genBad(t *rapid.T) Case {
	base := rapid.SliceOfN(rapid.Byte(), 0, 40).Draw(t, "plain")
	kind := rapid.SampledFrom([]string{"a85-alphabet", "a85-overflow", "a85-z-in-group", "hex-alphabet",
		"zlib-truncated", "zlib-garbage", "png-tag", "predictor-value", "unknown-filter"}).Draw(t, "badKind")
	if vr.Off("a85-overflow") && kind == "a85-overflow" {
		vr.Want("a85-overflow", true)
		kind = "a85-alphabet"
	}
	c := Case{WantErr: true, Why: kind, AsName: true, ParmsForm: "absent", Parms: []*Parm{nil}, Labels: []string{"bad:" + kind}}
	switch kind {
	case "a85-alphabet":
		enc := filt.A85Encode(append(base, 1, 2, 3, 4, 5), filt.A85Opts{EOD: true})
		pos := rapid.IntRange(0, len(enc)-3).Draw(t, "pos")
		bad := rapid.SampledFrom([]byte{'v', 'w', 'x', 'y', '{', '|', '}', '~', 0x7F, 0x80, 0xFF, 0x01, 0x1F}).Draw(t, "badByte")
		enc[pos] = bad
		if bad == '~' && enc[pos+1] == '>' {
			enc[pos+1] = '!'
		}
		c.Filters, c.Encoded = []string{"ASCII85Decode"}, enc
	case "a85-overflow":
		// a five-character group whose value exceeds 2^32-1 (§7.4.3: "shall not occur")
		grp := rapid.SampledFrom([]string{"s8W-\"", "s8W.!", "s8X!!", "s9!!!", "t!!!!", "uuuuu", "u!!!!"}).Draw(t, "group")
		enc := append(filt.A85Encode(base[:len(base)/4*4], filt.A85Opts{}), grp...)
		enc = append(enc, "~>"...)
		c.Filters, c.Encoded = []string{"A85"}, enc
	case "a85-z-in-group":
		k := rapid.IntRange(1, 4).Draw(t, "k")
		enc := append([]byte(strings.Repeat("5", k)), 'z')
		enc = append(enc, "sdq~>"...)
		c.Filters, c.Encoded = []string{"ASCII85Decode"}, enc
	case "hex-alphabet":
		enc := filt.HexEncode(append(base, 0xAB), filt.HexOpts{EOD: true})
		pos := rapid.IntRange(0, len(enc)-2).Draw(t, "pos")
		enc[pos] = rapid.SampledFrom([]byte{'g', 'G', 'x', '<', '/', '-', '.', '~', 0x80, 0xFF, '@', '`', ':'}).Draw(t, "badByte")
		c.Filters, c.Encoded = []string{"AHx"}, enc
	case "zlib-truncated", "zlib-garbage":
		z := filt.Zlib(append(base, []byte("some compressible text, some compressible text")...), 6)
		if kind == "zlib-truncated" {
			z = z[:rapid.IntRange(0, len(z)-1).Draw(t, "cut")]
		} else {
			pos := rapid.IntRange(0, len(z)-1).Draw(t, "pos")
			z[pos] ^= byte(rapid.IntRange(1, 255).Draw(t, "xor"))
		}
		// differential with the standard library: only demand an error when compress/zlib fails too
		if r, err := zlib.NewReader(bytes.NewReader(z)); err == nil {
			if _, err = io.Copy(io.Discard, r); err == nil {
				c.WantErr = false
				var out bytes.Buffer
				r2, _ := zlib.NewReader(bytes.NewReader(z))
				_, _ = io.Copy(&out, r2)
				c.Plain = out.Bytes()
				c.Labels = append(c.Labels, "bad:zlib-still-valid")
			}
		}
		c.Filters, c.Encoded = []string{"FlateDecode"}, z
	case "png-tag":
		rows := rapid.IntRange(1, 4).Draw(t, "rows")
		cols := rapid.IntRange(1, 8).Draw(t, "cols")
		raw := make([]byte, rows*cols)
		tags := make([]int, rows)
		for i := range tags {
			tags[i] = rapid.IntRange(0, 4).Draw(t, "tag")
		}
		tags[rapid.IntRange(0, rows-1).Draw(t, "badRow")] = rapid.IntRange(5, 255).Draw(t, "badTag")
		c.Encoded = filt.Zlib(filt.PNGForward(raw, cols, 1, tags), 6)
		c.Filters, c.ParmsForm, c.Parms = []string{"FlateDecode"}, "dict", []*Parm{{Predictor: 12, Columns: cols}}
	case "predictor-value":
		pv := rapid.SampledFrom([]int{3, 4, 5, 9, 16, 20, 100, -1}).Draw(t, "predictor")
		c.Encoded = filt.Zlib(base, 6)
		c.Filters, c.ParmsForm, c.Parms = []string{"Fl"}, "dict", []*Parm{{Predictor: pv, Columns: 1}}
	case "unknown-filter":
		c.Filters = []string{rapid.SampledFrom([]string{"Flate", "flatedecode", "ASCIIHex", "A85Decode", "Foo", "LZWDecode", "RunLengthDecode"}).Draw(t, "name")}
		c.Encoded = base
	}
	return c
}

func TestErrorClause(t *testing.T) {
	vr.Prop(t, "decode", vr.N(6000, 80000), genBad, meta, checkCase)
}

// ---------------------------------------------------------------------------
// exhaustive sub-space: all strings of length <= 3 over a reduced alphabet x 40 fixed pipelines

var alphabet = []byte{0x00, 0x01, 0x7F, 0x80, 0xFF, '>', '~', 'z'}

type pipe struct {
	stages []stage
}

func fixedPipes() []pipe {
	fl := func(level int, parm *Parm, tags []int) stage {
		return stage{kind: "flate", name: "FlateDecode", level: level, parm: parm, tags: tags}
	}
	hx := func(o filt.HexOpts) stage { return stage{kind: "hex", name: "ASCIIHexDecode", hex: o} }
	a8 := func(o filt.A85Opts) stage { return stage{kind: "a85", name: "ASCII85Decode", a85: o} }
	h1 := hx(filt.HexOpts{EOD: true})
	h2 := hx(filt.HexOpts{Upper: []bool{true, false, true}, WSEvery: 1, WS: "\n", EOD: true, DropLast: true})
	h3 := hx(filt.HexOpts{Upper: []bool{true}, WSEvery: 3, WS: " ", EOD: false})
	a1 := a8(filt.A85Opts{EOD: true})
	a2 := a8(filt.A85Opts{WSEvery: 1, WS: "\r\n", EOD: true, LeadWS: " "})
	a3 := a8(filt.A85Opts{WSEvery: 2, WS: "\x00", EOD: false})
	f1 := fl(6, nil, nil)
	f2 := fl(0, &Parm{Predictor: 1}, nil)
	f3 := fl(9, &Parm{Predictor: 2, Columns: 1}, nil)
	f4 := fl(6, &Parm{Predictor: 15, Columns: 1}, []int{4, 3, 2})
	f5 := fl(1, &Parm{Predictor: 10}, []int{1, 2, 3, 4, 0})
	f6 := fl(-2, &Parm{Predictor: 12, Colors: 1, Columns: 1, BPC: 8}, []int{3})
	singles := []stage{h1, h2, h3, a1, a2, a3, f1, f2, f3, f4, f5, f6}
	var ps []pipe
	for _, s := range singles {
		ps = append(ps, pipe{[]stage{s}})
	}
	pairs := [][2]stage{{a1, f1}, {h1, f1}, {f1, a1}, {f1, h1}, {a2, h2}, {h2, a2}, {a1, a1}, {h1, h1}, {f1, f1}, {a3, f4}, {h3, f3},
		{f4, a2}, {f5, h2}, {a1, h1}, {h1, a1}, {f4, f5}, {a2, f6}, {h2, f5}, {f6, a3}, {f3, h3}}
	for _, p := range pairs {
		ps = append(ps, pipe{[]stage{p[0], p[1]}})
	}
	triples := [][3]stage{{a1, h1, f1}, {h2, a2, f4}, {f1, a1, h1}, {a1, f5, h2}, {h1, f1, a1}, {a2, f4, f3}, {f6, h2, a2}, {h1, a1, f6}}
	for _, p := range triples {
		ps = append(ps, pipe{[]stage{p[0], p[1], p[2]}})
	}
	return ps
}

func (p pipe) build(plain []byte) Case {
	data := plain
	stages := make([]stage, len(p.stages))
	copy(stages, p.stages)
	for i := len(stages) - 1; i >= 0; i-- {
		// all fixed predictor stages have row length 1, which divides every length
		data = stages[i].encode(data)
	}
	c := Case{Plain: plain, Encoded: data, ParmsForm: "array"}
	any := false
	for _, st := range stages {
		c.Filters = append(c.Filters, st.name)
		c.Parms = append(c.Parms, st.parm)
		any = any || st.parm != nil
	}
	if len(stages) == 1 {
		c.AsName = true
		c.ParmsForm = "dict"
		if !any {
			c.ParmsForm = "absent"
		}
	}
	c.Labels = []string{"exhaustive"}
	return c
}

func TestExhaustiveShort(t *testing.T) {
	pipes := fixedPipes()
	if len(pipes) != 40 {
		t.Fatalf("expected 40 fixed pipelines, have %d", len(pipes))
	}
	var plains [][]byte
	plains = append(plains, []byte{})
	for _, a := range alphabet {
		plains = append(plains, []byte{a})
		for _, b := range alphabet {
			plains = append(plains, []byte{a, b})
			for _, c := range alphabet {
				plains = append(plains, []byte{a, b, c})
			}
		}
	}
	idx := 0
	for _, p := range pipes {
		for _, pl := range plains {
			idx++
			if !vr.Mine(idx) {
				continue
			}
			c := p.build(pl)
			if !vr.One(t, "decode", c, meta(c), checkCase) {
				return
			}
		}
	}
	vr.Exhaustive("all strings of length<=3 over {00,01,7F,80,FF,'>','~','z'} x 40 fixed pipelines")
}
