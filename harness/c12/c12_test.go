// C12 — RAG chunks cover the document once, in order, with true metadata.
//
// Generator: a logical document (pages with increasing page numbers, each a
// sequence of headings of any level, paragraphs of 1 word up to several times
// the maximum chunk size, nested lists, tables, images with and without alt
// text, empty pages) in which every word is a unique token <kind letter><5
// digits> numbered in document order; a chunker ("doc" = rag.DocumentChunker
// over Page.Elements, "layout" = rag.Chunker over Page.Layout) and its size
// configuration. For the layout chunker the elements of a page are ordered
// headings, paragraphs, lists — the order in which that API consumes
// Page.Layout — so that "document order" has one meaning.
//
// Oracle: the token sequence found in the concatenated chunk texts (white
// space removed) equals the document's token sequence (layout chunker: a
// heading may instead be carried by SectionTitle/SectionPath); ChunkIndex =
// position, TotalChunks = n, IDs unique; the page range lies within the pages
// of the chunk's tokens; SectionPath = oracle/secpath at the chunk's first
// token.
package c12

import (
	"fmt"
	"regexp"
	"strings"
	"testing"
	"unicode"

	"github.com/tsawler/tabula/model"
	"github.com/tsawler/tabula/rag"
	"pgregory.net/rapid"

	"verif/harness/oracle/secpath"
	"verif/harness/vr"
)

func TestMain(m *testing.M) { vr.Main(m) }

// ---------------------------------------------------------------------------
// logical model

type Item struct {
	N     int `json:"n"`     // words
	Level int `json:"level"` // nesting level 0..3
}

type Elem struct {
	Kind    string  `json:"kind"`            // h p l t i
	Level   int     `json:"level,omitempty"` // heading level 1..6
	N       int     `json:"n,omitempty"`     // words of a heading / paragraph / image alt text (image: 0 = no alt text)
	Dot     int     `json:"dot,omitempty"`   // paragraph: every Dot-th word ends a sentence ("." appended); 0 = no punctuation
	Colon   bool    `json:"colon,omitempty"` // paragraph ends with ':' (reads as a list introduction)
	Sep     int     `json:"sep,omitempty"`   // paragraph word separator: 0 " ", 1 "\n" (multi-line), 2 "  ", 3 "\n\n" every 5th word (blank lines inside)
	Pad     bool    `json:"pad,omitempty"`   // heading / paragraph text is surrounded by blanks
	Items   []Item  `json:"items,omitempty"`
	Ordered bool    `json:"ordered,omitempty"`
	Rows    [][]int `json:"rows,omitempty"` // table: words per cell
	// SameAs (headings, only with Case.ParaHeadings): k > 0 = the heading has the words of the k-th heading of the
	// document (1-based), which stands on an earlier page: the same section title again ("Summary" per chapter)
	SameAs int `json:"same_as,omitempty"`
}

type Page struct {
	Number int    `json:"number"`
	Elems  []Elem `json:"elems"`
}

type SizeSpec struct {
	Preset   string  `json:"preset,omitempty"`
	Unit     int     `json:"unit"`
	Max      int     `json:"max"`
	TPC      float64 `json:"tokens_per_char"`
	Semantic bool    `json:"semantic"`
}

type Cfg struct {
	Chunker         string   `json:"chunker"`        // doc | layout
	Default         bool     `json:"default"`        // use the package defaults (ChunkDocument / NewChunker)
	Size            SizeSpec `json:"size"`           // doc chunker
	Max             int      `json:"max_chunk_size"` // layout chunker (characters)
	Min             int      `json:"min_chunk_size"`
	MinHeadingLevel int      `json:"min_heading_level"`
	ListCoherence   bool     `json:"list_coherence"`
	TableCoherence  bool     `json:"table_coherence"`
	IDPrefix        string   `json:"id_prefix"`
}

type Case struct {
	Title  string   `json:"title"`
	Form   string   `json:"form"` // elements: Page.Elements only, any order; layout: headings, paragraphs, lists per page, Elements and Layout
	Pages  []Page   `json:"pages"`
	Cfg    Cfg      `json:"cfg"`
	Labels []string `json:"labels,omitempty"`
	// ParaHeadings (form "elements"): headings are ordinary Paragraph elements; what makes them headings is their
	// entry in Page.Layout.Headings (the shape of a document extracted from a PDF)
	ParaHeadings bool `json:"para_headings,omitempty"`
	// Warm: the chunker object is not fresh - it chunked another document (which ends inside nested sections)
	// just before. Nothing of that document may show in the result.
	Warm bool `json:"warm,omitempty"`
}

// warmDoc is the document a reused chunker has seen before: headings left open at its end.
func warmDoc() *model.Document {
	w := Case{Title: "Earlier document", Form: "layout", Pages: []Page{{Number: 1, Elems: []Elem{
		{Kind: "h", Level: 1, N: 2}, {Kind: "p", N: 12, Dot: 4}, {Kind: "h", Level: 2, N: 2}, {Kind: "p", N: 9, Dot: 3},
		{Kind: "h", Level: 3, N: 1}, {Kind: "l", Items: []Item{{N: 2}, {N: 3, Level: 1}}}, {Kind: "p", N: 7}}}}}
	return w.build().doc
}

func (s SizeSpec) build() rag.SizeConfig {
	switch s.Preset {
	case "default":
		return rag.DefaultSizeConfig()
	case "small":
		return rag.SmallChunkConfig()
	case "large":
		return rag.LargeChunkConfig()
	case "cohere":
		return rag.CohereEmbeddingConfig()
	case "openai":
		return rag.OpenAIEmbeddingConfig()
	case "semantic":
		return rag.SemanticSizeConfig(1, 2)
	case "tokens":
		return rag.TokenBasedSizeConfig(50, 100)
	}
	u := rag.SizeUnit(s.Unit)
	return rag.SizeConfig{
		Target:                    rag.SizeLimit{Value: s.Max / 2, Unit: u, Type: rag.LimitTypeSoft},
		Min:                       rag.SizeLimit{Value: s.Max / 10, Unit: u, Type: rag.LimitTypeSoft},
		Max:                       rag.SizeLimit{Value: s.Max, Unit: u, Type: rag.LimitTypeHard},
		TokensPerChar:             s.TPC,
		MergeSmallChunks:          true,
		SplitAtSemanticBoundaries: s.Semantic,
	}
}

func (c Cfg) chunkerConfig() rag.ChunkerConfig {
	cfg := rag.DefaultChunkerConfig()
	cfg.MaxChunkSize = c.Max
	cfg.MinChunkSize = c.Min
	cfg.TargetChunkSize = c.Max / 2
	cfg.MinHeadingLevel = c.MinHeadingLevel
	cfg.PreserveListCoherence = c.ListCoherence
	cfg.PreserveTableCoherence = c.TableCoherence
	cfg.IDPrefix = c.IDPrefix
	return cfg
}

// ---------------------------------------------------------------------------
// expansion of the logical model into a model.Document and the expected token stream

type token struct {
	text    string
	page    int // Page.Number
	kind    byte
	heading int           // index into built.headings for heading tokens, -1 otherwise
	path    secpath.Stack // content tokens: enclosing headings; heading tokens: the stack before the heading
	after   secpath.Stack // heading tokens: the stack including the heading
	major   secpath.Stack // the same, built only from headings with level <= MinHeadingLevel (layout chunker reading)
	majorAf secpath.Stack
}

type headingInfo struct {
	title string
	level int
	page  int
	first int // index of its first token
	n     int
}

type built struct {
	emptyPages []int // pages holding a paragraph or list without any word (layout form)
	brackets   int   // number of "(" and ")" in the paragraph texts (nothing else of the document has any)
	doc        *model.Document
	tokens     []token
	index      map[string][]int // word -> its occurrences in document order (more than one only for repeated headings)
	headings   []headingInfo
}

func (c Case) build() *built {
	b := &built{doc: model.NewDocument(), index: map[string][]int{}}
	b.doc.Metadata.Title = c.Title
	var stack, major secpath.Stack
	next := 0
	var reuse []string // words to use instead of fresh ones (a heading repeating an earlier title)
	words := func(kind byte, n, page int, heading int) []string {
		out := make([]string, n)
		for i := range out {
			t := fmt.Sprintf("%c%05d", kind, next)
			if reuse != nil {
				t = reuse[i]
			} else {
				next++
			}
			out[i] = t
			b.index[t] = append(b.index[t], len(b.tokens))
			b.tokens = append(b.tokens, token{text: t, page: page, kind: kind, heading: heading, path: stack, major: major})
		}
		reuse = nil
		return out
	}
	minLevel := c.Cfg.MinHeadingLevel
	if c.Cfg.Default {
		minLevel = rag.DefaultChunkerConfig().MinHeadingLevel
	}
	for _, p := range c.Pages {
		page := model.NewPage(612, 792)
		page.Number = p.Number
		if c.Form == "layout" {
			page.Layout = &model.PageLayout{}
		}
		for _, e := range p.Elems {
			switch e.Kind {
			case "h":
				hi := len(b.headings)
				first := len(b.tokens)
				if c.ParaHeadings && e.SameAs > 0 && e.SameAs <= len(b.headings) && b.headings[e.SameAs-1].page != p.Number {
					reuse = strings.Fields(b.headings[e.SameAs-1].title)
					e.N = len(reuse)
				}
				ws := words('h', e.N, p.Number, hi)
				title := strings.Join(ws, " ")
				before, beforeMajor := stack, major
				stack = stack.Push(e.Level, title)
				if e.Level <= minLevel {
					major = major.Push(e.Level, title)
				}
				for i := first; i < len(b.tokens); i++ {
					b.tokens[i].path, b.tokens[i].after = before, stack
					b.tokens[i].major, b.tokens[i].majorAf = beforeMajor, major
				}
				b.headings = append(b.headings, headingInfo{title: title, level: e.Level, page: p.Number, first: first, n: e.N})
				text := title
				if e.Pad {
					text = "  " + title + " \t"
				}
				if c.ParaHeadings && c.Form == "elements" {
					page.AddElement(&model.Paragraph{Text: text})
					if page.Layout == nil {
						page.Layout = &model.PageLayout{}
					}
					page.Layout.Headings = append(page.Layout.Headings, model.HeadingInfo{Text: text, Level: e.Level})
					break
				}
				page.AddElement(&model.Heading{Text: text, Level: e.Level})
				if page.Layout != nil {
					page.Layout.Headings = append(page.Layout.Headings, model.HeadingInfo{Text: text, Level: e.Level})
				}
			case "p":
				if e.N == 0 {
					b.emptyPages = append(b.emptyPages, p.Number)
				}
				ws := words('p', e.N, p.Number, -1)
				// round 11: paragraphs with an odd Dot put every sentence in brackets - "(p00010 p00011.) (p00012 …" -, so
				// that a sentence end is followed by a character that is neither a space nor a small letter
				bracket := e.Dot%2 == 1 && len(ws) > 0
				if e.Dot > 0 {
					for i := range ws {
						if (i+1)%e.Dot == 0 && i+1 < len(ws) {
							ws[i] += "."
							if bracket {
								ws[i] += ")"
								ws[i+1] = "(" + ws[i+1]
							}
						}
					}
				}
				if bracket {
					ws[0] = "(" + ws[0]
				}
				var tb strings.Builder
				for i, w := range ws {
					if i > 0 {
						switch {
						case e.Sep == 1:
							tb.WriteString("\n")
						case e.Sep == 2:
							tb.WriteString("  ")
						case e.Sep == 3 && i%5 == 0:
							tb.WriteString("\n\n")
						default:
							tb.WriteString(" ")
						}
					}
					tb.WriteString(w)
				}
				text := tb.String()
				if e.Colon && len(ws) > 0 {
					text += ":"
				} else if e.Dot > 0 && len(ws) > 0 {
					text += "."
					if bracket {
						text += ")"
					}
				}
				b.brackets += strings.Count(text, "(") + strings.Count(text, ")")
				if e.Pad {
					text = " \n" + text + "  "
				}
				page.AddElement(&model.Paragraph{Text: text})
				if page.Layout != nil {
					page.Layout.Paragraphs = append(page.Layout.Paragraphs, model.ParagraphInfo{Text: text})
				}
			case "l":
				if len(e.Items) == 0 {
					b.emptyPages = append(b.emptyPages, p.Number)
				}
				var items []model.ListItem
				for _, it := range e.Items {
					items = append(items, model.ListItem{Text: strings.Join(words('l', it.N, p.Number, -1), " "), Level: it.Level, Bullet: "-"})
				}
				page.AddElement(&model.List{Items: items, Ordered: e.Ordered})
				if page.Layout != nil {
					lt := model.ListTypeBullet
					if e.Ordered {
						lt = model.ListTypeNumbered
					}
					page.Layout.Lists = append(page.Layout.Lists, model.ListInfo{Type: lt, Items: items})
				}
			case "t":
				tb := &model.Table{}
				for _, row := range e.Rows {
					var cells []model.Cell
					for _, n := range row {
						cells = append(cells, model.Cell{Text: strings.Join(words('t', n, p.Number, -1), " "), RowSpan: 1, ColSpan: 1})
					}
					tb.Rows = append(tb.Rows, cells)
				}
				page.AddElement(tb)
			case "i":
				page.AddElement(&model.Image{AltText: strings.Join(words('i', e.N, p.Number, -1), " "), Format: model.ImageFormatPNG})
			}
		}
		// not AddPage: the page keeps the number it was given (AddPage would renumber it)
		b.doc.Pages = append(b.doc.Pages, page)
	}
	return b
}

// ---------------------------------------------------------------------------
// oracle

var tokenRE = regexp.MustCompile(`[hplti][0-9]{5}`)

func squeeze(s string) string {
	return strings.Map(func(r rune) rune {
		if unicode.IsSpace(r) {
			return -1
		}
		return r
	}, s)
}

func norm(s string) string { return strings.Join(strings.Fields(s), " ") }

func normAll(l []string) []string {
	out := make([]string, len(l))
	for i, s := range l {
		out[i] = norm(s)
	}
	return out
}

func sameTitles(a, b []string) bool {
	if len(a) != len(b) {
		return false
	}
	for i := range a {
		if a[i] != b[i] {
			return false
		}
	}
	return true
}

func (b *built) describe(i int) string {
	t := b.tokens[i]
	kinds := map[byte]string{'h': "heading", 'p': "paragraph", 'l': "list item", 't': "table cell", 'i': "image description"}
	return fmt.Sprintf("%s (word of a %s on page %d)", t.text, kinds[t.kind], t.page)
}

type outChunk struct {
	id   string
	text string
	meta rag.ChunkMetadata
}

func run(c Case, doc *model.Document) ([]outChunk, error) {
	var out []outChunk
	switch c.Cfg.Chunker {
	case "doc":
		var col *rag.ChunkCollection
		switch {
		case c.Warm:
			dc := rag.NewDocumentChunker()
			if !c.Cfg.Default {
				dc = rag.NewDocumentChunkerWithConfig(c.Cfg.chunkerConfig(), c.Cfg.Size.build())
			}
			dc.ChunkDocument(warmDoc())
			col = dc.ChunkDocument(doc)
		case c.Cfg.Default:
			col = rag.ChunkDocument(doc)
		default:
			col = rag.ChunkDocumentWithConfig(doc, c.Cfg.chunkerConfig(), c.Cfg.Size.build())
		}
		if col == nil {
			return nil, fmt.Errorf("ChunkDocument returned nil")
		}
		for _, ch := range col.Chunks {
			out = append(out, outChunk{ch.ID, ch.Text, ch.Metadata})
		}
	case "layout":
		var ck *rag.Chunker
		if c.Cfg.Default {
			ck = rag.NewChunker()
		} else {
			ck = rag.NewChunkerWithConfig(c.Cfg.chunkerConfig())
		}
		if c.Warm {
			if _, err := ck.Chunk(warmDoc()); err != nil {
				return nil, fmt.Errorf("Chunker.Chunk (earlier document): %v", err)
			}
		}
		res, err := ck.Chunk(doc)
		if err != nil {
			return nil, fmt.Errorf("Chunker.Chunk: %v", err)
		}
		for _, ch := range res.Chunks {
			out = append(out, outChunk{ch.ID, ch.Text, ch.Metadata})
		}
		if res.Stats.TotalChunks != len(res.Chunks) {
			return nil, fmt.Errorf("Stats.TotalChunks = %d, %d chunks", res.Stats.TotalChunks, len(res.Chunks))
		}
	default:
		return nil, fmt.Errorf("generator bug: chunker %q", c.Cfg.Chunker)
	}
	return out, nil
}

func checkCase(c Case) error {
	b := c.build()
	chunks, err := run(c, b.doc)
	if err != nil {
		return err
	}
	layout := c.Cfg.Chunker == "layout"
	n := len(chunks)

	// indices, totals, ids
	ids := map[string]int{}
	for i, ch := range chunks {
		if ch.meta.ChunkIndex != i {
			return fmt.Errorf("chunk at position %d of %d has ChunkIndex %d", i, n, ch.meta.ChunkIndex)
		}
		if ch.meta.TotalChunks != n {
			return fmt.Errorf("chunk %d reports TotalChunks %d, there are %d chunks", i, ch.meta.TotalChunks, n)
		}
		if j, dup := ids[ch.id]; dup {
			return fmt.Errorf("chunks %d and %d share the ID %q", j, i, ch.id)
		}
		ids[ch.id] = i
	}

	// token stream of the concatenated chunk texts
	var sb strings.Builder
	ends := make([]int, n) // end offset of chunk i in the squeezed stream
	for i, ch := range chunks {
		sb.WriteString(squeeze(ch.text))
		ends[i] = sb.Len()
	}
	stream := sb.String()
	// every word stands in the chunks exactly once (below), and so does what stands between the words: the brackets
	// around the sentences of a paragraph are all there
	if got := strings.Count(stream, "(") + strings.Count(stream, ")"); got != b.brackets {
		return fmt.Errorf("the paragraphs of the document hold %d brackets, the chunk texts %d: %q", b.brackets, got, stream)
	}
	type found struct{ tok, chunk int }
	var seq []found
	chunkOf := func(off int) int {
		for i, e := range ends {
			if off < e {
				return i
			}
		}
		return n - 1
	}
	used := map[int]bool{}
	for _, m := range tokenRE.FindAllStringIndex(stream, -1) {
		occ, ok := b.index[stream[m[0]:m[1]]]
		if !ok {
			return fmt.Errorf("chunk %d contains the word %q, which is not in the document", chunkOf(m[0]), stream[m[0]:m[1]])
		}
		// a word that stands in the document several times (repeated section title): its occurrences in order
		ti := occ[len(occ)-1]
		for _, o := range occ {
			if !used[o] {
				ti = o
				break
			}
		}
		used[ti] = true
		seq = append(seq, found{ti, chunkOf(m[0])})
	}
	// exactly once, in document order
	seen := make([]int, len(b.tokens))
	for i := range seen {
		seen[i] = -1
	}
	last := -1
	for _, f := range seq {
		if seen[f.tok] >= 0 {
			return fmt.Errorf("%s occurs twice: in chunk %d and in chunk %d", b.describe(f.tok), seen[f.tok], f.chunk)
		}
		seen[f.tok] = f.chunk
		if f.tok < last {
			return fmt.Errorf("order: %s appears in chunk %d after %s, which follows it in the document", b.describe(f.tok), f.chunk, b.describe(last))
		}
		last = f.tok
	}
	for ti, t := range b.tokens {
		if seen[ti] >= 0 {
			continue
		}
		if layout && t.kind == 'h' {
			continue // may be carried by the section metadata; checked below
		}
		return fmt.Errorf("%s is in no chunk (%d chunks, %d of %d words found)", b.describe(ti), n, len(seq), len(b.tokens))
	}
	// layout chunker: a heading is either completely in the text or carried by SectionTitle/SectionPath
	carried := map[int]bool{} // heading index -> carried by metadata only
	if layout {
		for hi, h := range b.headings {
			inText := 0
			for k := 0; k < h.n; k++ {
				if seen[h.first+k] >= 0 {
					inText++
				}
			}
			if inText == h.n {
				continue
			}
			if inText != 0 {
				return fmt.Errorf("heading %q (page %d) is only partly in the chunk texts", h.title, h.page)
			}
			ok := false
			for _, ch := range chunks {
				if norm(ch.meta.SectionTitle) == h.title {
					ok = true
				}
				for _, p := range ch.meta.SectionPath {
					if norm(p) == h.title {
						ok = true
					}
				}
			}
			if !ok {
				return fmt.Errorf("heading %q (level %d, page %d) is in no chunk text and in no chunk's SectionTitle/SectionPath", h.title, h.level, h.page)
			}
			carried[hi] = true
		}
	}

	// per chunk: page range and section path
	firstTok := make([]int, n)
	minPage := make([]int, n)
	maxPage := make([]int, n)
	for i := range firstTok {
		firstTok[i] = -1
	}
	addPage := func(i, p int) {
		if minPage[i] == 0 || p < minPage[i] {
			minPage[i] = p
		}
		if p > maxPage[i] {
			maxPage[i] = p
		}
	}
	for _, f := range seq {
		if firstTok[f.chunk] < 0 {
			firstTok[f.chunk] = f.tok
		}
		addPage(f.chunk, b.tokens[f.tok].page)
	}
	for i, ch := range chunks {
		if firstTok[i] < 0 {
			continue // a chunk without words (e.g. an empty table): nothing to locate it by
		}
		if layout {
			// the heading of the chunk's own section counts as its content when only the metadata carries it
			for hi, h := range b.headings {
				if carried[hi] && norm(ch.meta.SectionTitle) == h.title {
					addPage(i, h.page)
				}
			}
			// an element without words (empty paragraph, list without items) leaves no trace in the text,
			// but a section chunk may contain it: its page is allowed, not required
			for _, p := range b.emptyPages {
				addPage(i, p)
			}
		}
		if !(minPage[i] <= ch.meta.PageStart && ch.meta.PageStart <= ch.meta.PageEnd && ch.meta.PageEnd <= maxPage[i]) {
			return fmt.Errorf("chunk %d reports pages %d-%d, its content comes from pages %d-%d (first word %s)", i, ch.meta.PageStart, ch.meta.PageEnd, minPage[i], maxPage[i], b.describe(firstTok[i]))
		}
		t := b.tokens[firstTok[i]]
		got := normAll(ch.meta.SectionPath)
		accept := [][]string{t.path.Titles()}
		if t.kind == 'h' {
			accept = append(accept, t.after.Titles()) // a heading chunk may or may not include itself
		}
		if layout {
			// ChunkerConfig.MinHeadingLevel: deeper headings are content, not sections — both readings accepted
			accept = append(accept, t.major.Titles())
			if t.kind == 'h' {
				accept = append(accept, t.majorAf.Titles())
			}
		}
		ok := false
		for _, a := range accept {
			ok = ok || sameTitles(got, a)
		}
		if !ok {
			return fmt.Errorf("chunk %d (first word %s) has SectionPath %q, the enclosing headings are %q", i, b.describe(firstTok[i]), got, accept[0])
		}
	}
	return nil
}

func init() { vr.Register("chunks", checkCase) }

// ---------------------------------------------------------------------------
// generator

func genPara(t *rapid.T, maxWords int) Elem {
	e := Elem{Kind: "p"}
	switch rapid.IntRange(0, 9).Draw(t, "paraSize") {
	case 0:
		e.N = 1
	case 1, 2, 3, 4:
		e.N = rapid.IntRange(1, 12).Draw(t, "paraWords")
	case 5, 6:
		e.N = rapid.IntRange(8, 40).Draw(t, "paraWords")
	default:
		e.N = rapid.IntRange(1, maxWords).Draw(t, "paraWords")
	}
	if rapid.Bool().Draw(t, "punct") {
		e.Dot = rapid.IntRange(1, 12).Draw(t, "dot")
	}
	e.Colon = rapid.IntRange(0, 4).Draw(t, "colon") == 0
	e.Sep = rapid.SampledFrom([]int{0, 0, 0, 1, 2, 3}).Draw(t, "sep")
	e.Pad = rapid.IntRange(0, 5).Draw(t, "pad") == 0
	if rapid.IntRange(0, 19).Draw(t, "emptyPara") == 0 {
		e.N = 0 // a paragraph without text
	}
	return e
}

func genList(t *rapid.T) Elem {
	e := Elem{Kind: "l", Ordered: rapid.Bool().Draw(t, "ordered")}
	n := rapid.SampledFrom([]int{0, 1, 1, 2, 2, 3, 4, 5, 6}).Draw(t, "items")
	level := 0
	for i := 0; i < n; i++ {
		// nesting: stay, go one deeper, or return to any shallower level
		switch rapid.IntRange(0, 3).Draw(t, "nest") {
		case 0:
			if level < 3 && i > 0 {
				level++
			}
		case 1:
			level = rapid.IntRange(0, level).Draw(t, "unnest")
		}
		words := rapid.IntRange(1, 6).Draw(t, "itemWords")
		if rapid.IntRange(0, 9).Draw(t, "longItem") == 0 {
			words = rapid.IntRange(10, 60).Draw(t, "itemWordsLong")
		}
		e.Items = append(e.Items, Item{N: words, Level: level})
	}
	return e
}

func genHeading(t *rapid.T) Elem {
	return Elem{Kind: "h", Level: rapid.IntRange(1, 6).Draw(t, "level"), N: rapid.IntRange(1, 3).Draw(t, "headingWords"),
		Pad: rapid.IntRange(0, 5).Draw(t, "pad") == 0}
}

func genTable(t *rapid.T) Elem {
	rows := rapid.IntRange(0, 3).Draw(t, "rows")
	cols := rapid.IntRange(1, 3).Draw(t, "cols")
	e := Elem{Kind: "t"}
	ragged := rapid.IntRange(0, 3).Draw(t, "ragged") == 0
	for r := 0; r < rows; r++ {
		if ragged {
			cols = rapid.IntRange(0, 3).Draw(t, "rowCols")
		}
		row := make([]int, cols)
		for j := range row {
			row[j] = rapid.IntRange(0, 3).Draw(t, "cellWords")
		}
		e.Rows = append(e.Rows, row)
	}
	return e
}

func genCase(t *rapid.T) Case {
	c := Case{}
	c.Form = rapid.SampledFrom([]string{"elements", "layout", "layout"}).Draw(t, "form")
	if c.Form == "elements" {
		c.Cfg.Chunker = "doc"
	} else {
		c.Cfg.Chunker = rapid.SampledFrom([]string{"layout", "layout", "doc"}).Draw(t, "chunker")
	}
	if rapid.Bool().Draw(t, "hasTitle") {
		c.Title = "Doc Title"
	}
	// configuration
	c.Cfg.Default = rapid.IntRange(0, 5).Draw(t, "defaultCfg") == 0
	maxChars := 2000 // what the largest paragraph is sized against
	if c.Cfg.Chunker == "doc" {
		s := SizeSpec{}
		if rapid.IntRange(0, 4).Draw(t, "preset") == 0 {
			s.Preset = rapid.SampledFrom([]string{"default", "small", "large", "cohere", "openai", "semantic", "tokens"}).Draw(t, "presetName")
		} else {
			s.Unit = rapid.SampledFrom([]int{0, 0, 0, 1, 1, 2, 3, 4}).Draw(t, "unit")
			s.Max = rapid.SampledFrom([]int{1, 3, 8, 20, 50, 100, 200, 400, 1000}).Draw(t, "max")
			s.TPC = rapid.SampledFrom([]float64{0, 0.25, 0.25, 0.5, 1}).Draw(t, "tpc")
			s.Semantic = rapid.Bool().Draw(t, "semantic")
		}
		c.Cfg.Size = s
		if !c.Cfg.Default {
			cfg := s.build()
			switch cfg.Max.Unit {
			case rag.SizeUnitCharacters:
				maxChars = cfg.Max.Value
			case rag.SizeUnitTokens:
				r := cfg.TokensPerChar
				if r <= 0 {
					r = 0.25
				}
				maxChars = int(float64(cfg.Max.Value) / r)
			case rag.SizeUnitWords:
				maxChars = cfg.Max.Value * 6
			case rag.SizeUnitSentences:
				maxChars = cfg.Max.Value * 80
			default:
				maxChars = cfg.Max.Value * 400
			}
		}
		if maxChars > 2400 {
			maxChars = 2400
		}
	}
	c.Cfg.Max = rapid.SampledFrom([]int{20, 40, 80, 120, 200, 400, 1000, 2000}).Draw(t, "maxChunk")
	c.Cfg.Min = rapid.SampledFrom([]int{0, 0, 10, 50, 100}).Draw(t, "minChunk")
	if c.Cfg.Min > c.Cfg.Max/2 {
		c.Cfg.Min = c.Cfg.Max / 2
	}
	c.Cfg.MinHeadingLevel = rapid.SampledFrom([]int{3, 3, 6, 6, 1, 2, 0, 4}).Draw(t, "minHeadingLevel")
	c.Cfg.ListCoherence = rapid.Bool().Draw(t, "listCoherence")
	c.Cfg.TableCoherence = rapid.Bool().Draw(t, "tableCoherence")
	c.Cfg.IDPrefix = rapid.SampledFrom([]string{"chunk", "", "x_1", "c"}).Draw(t, "idPrefix")
	if c.Cfg.Chunker == "layout" {
		maxChars = c.Cfg.Max
		if c.Cfg.Default {
			maxChars = 2000
		}
	}
	maxWords := maxChars * 5 / 7 // a word is 7 bytes with its separator: up to 5x the maximum
	if maxWords < 4 {
		maxWords = 4
	}
	if maxWords > 1800 {
		maxWords = 1800
	}

	// pages
	nPages := rapid.SampledFrom([]int{1, 1, 2, 2, 3, 4}).Draw(t, "pages")
	num := rapid.SampledFrom([]int{1, 1, 1, 2, 5}).Draw(t, "firstPage")
	for pi := 0; pi < nPages; pi++ {
		p := Page{Number: num}
		num += rapid.SampledFrom([]int{1, 1, 1, 2, 3}).Draw(t, "pageStep")
		if c.Form == "layout" {
			for i, k := 0, rapid.IntRange(0, 3).Draw(t, "nHeadings"); i < k; i++ {
				p.Elems = append(p.Elems, genHeading(t))
			}
			for i, k := 0, rapid.IntRange(0, 4).Draw(t, "nParas"); i < k; i++ {
				p.Elems = append(p.Elems, genPara(t, maxWords))
			}
			for i, k := 0, rapid.SampledFrom([]int{0, 0, 1, 1, 2}).Draw(t, "nLists"); i < k; i++ {
				p.Elems = append(p.Elems, genList(t))
			}
		} else {
			for i, k := 0, rapid.IntRange(0, 7).Draw(t, "nElems"); i < k; i++ {
				switch rapid.SampledFrom([]string{"h", "h", "p", "p", "p", "l", "t", "i"}).Draw(t, "kind") {
				case "h":
					p.Elems = append(p.Elems, genHeading(t))
				case "p":
					p.Elems = append(p.Elems, genPara(t, maxWords))
				case "l":
					p.Elems = append(p.Elems, genList(t))
				case "t":
					p.Elems = append(p.Elems, genTable(t))
				case "i":
					p.Elems = append(p.Elems, Elem{Kind: "i", N: rapid.IntRange(0, 3).Draw(t, "altWords")})
				}
			}
		}
		c.Pages = append(c.Pages, p)
	}
	if c.Form == "elements" && rapid.IntRange(0, 2).Draw(t, "paraHeadings") == 0 {
		c.ParaHeadings = true
		// some headings repeat the title of a heading of an earlier page; a page never holds the same title twice
		nh := 0
		firstOnPage := 0
		original := map[int]bool{} // headings (1-based) with a title of their own
		for pi := range c.Pages {
			firstOnPage = nh
			for ei := range c.Pages[pi].Elems {
				if c.Pages[pi].Elems[ei].Kind != "h" {
					continue
				}
				nh++
				original[nh] = true
				if firstOnPage > 0 && rapid.IntRange(0, 2).Draw(t, "repeatTitle") == 0 {
					if k := rapid.IntRange(1, firstOnPage).Draw(t, "sameAs"); original[k] {
						c.Pages[pi].Elems[ei].SameAs = k
						original[nh] = false
					}
				}
			}
		}
		// (two headings of one page may not repeat the same earlier title either)
		for pi := range c.Pages {
			seen := map[int]bool{}
			for ei := range c.Pages[pi].Elems {
				if k := c.Pages[pi].Elems[ei].SameAs; k > 0 {
					if seen[k] {
						c.Pages[pi].Elems[ei].SameAs = 0
					}
					seen[k] = true
				}
			}
		}
	}
	c.Warm = rapid.IntRange(0, 3).Draw(t, "warmChunker") == 0
	c.Labels = labels(c, maxChars)
	if c.Warm {
		c.Labels = append(c.Labels, "chunker-reused")
	}
	if c.ParaHeadings {
		c.Labels = append(c.Labels, "headings-as-paragraphs")
		for _, p := range c.Pages {
			for _, e := range p.Elems {
				if e.SameAs > 0 {
					c.Labels = append(c.Labels, "repeated-title")
				}
			}
		}
	}
	return c
}

// shape facts used by labels and the non-trivial rule
func shape(c Case) (levelsSeen map[int]bool, skipOrDecrease bool, pages int, renumbered bool, emptyPage bool, kinds map[string]int) {
	levelsSeen, kinds = map[int]bool{}, map[string]int{}
	prev := 0
	for i, p := range c.Pages {
		if p.Number != i+1 {
			renumbered = true
		}
		if len(p.Elems) == 0 {
			emptyPage = true
		}
		for _, e := range p.Elems {
			kinds[e.Kind]++
			if e.Kind == "h" {
				levelsSeen[e.Level] = true
				if prev != 0 && (e.Level < prev || e.Level > prev+1) {
					skipOrDecrease = true
				}
				if prev == 0 && e.Level > 1 {
					skipOrDecrease = true
				}
				prev = e.Level
			}
		}
	}
	return levelsSeen, skipOrDecrease, len(c.Pages), renumbered, emptyPage, kinds
}

func bigPara(c Case, maxChars int) bool {
	for _, p := range c.Pages {
		for _, e := range p.Elems {
			if e.Kind == "p" && e.N*7 > maxChars {
				return true
			}
		}
	}
	return false
}

func labels(c Case, maxChars int) []string {
	lv, skip, pages, renum, empty, kinds := shape(c)
	l := []string{"chunker:" + c.Cfg.Chunker, "form:" + c.Form, fmt.Sprintf("pages:%d", pages)}
	if c.Cfg.Default {
		l = append(l, "config:default")
	} else if c.Cfg.Chunker == "doc" {
		if c.Cfg.Size.Preset != "" {
			l = append(l, "size:preset:"+c.Cfg.Size.Preset)
		} else {
			l = append(l, "size:unit:"+rag.SizeUnit(c.Cfg.Size.Unit).String())
		}
	} else {
		l = append(l, fmt.Sprintf("minHeadingLevel:%d", c.Cfg.MinHeadingLevel))
	}
	if len(lv) >= 2 {
		l = append(l, "headings:>=2-levels")
	}
	if skip {
		l = append(l, "headings:skip-or-decrease")
	}
	if renum {
		l = append(l, "pages:not-1..n")
	}
	if empty {
		l = append(l, "pages:empty-page")
	}
	for _, k := range []string{"h", "p", "l", "t", "i"} {
		if kinds[k] > 0 {
			l = append(l, "has:"+k)
		}
	}
	if bigPara(c, maxChars) {
		l = append(l, "paragraph>max")
	}
	return l
}

func meta(c Case) vr.Meta {
	lv, skip, pages, _, _, _ := shape(c)
	big := false
	for _, l := range c.Labels {
		if l == "paragraph>max" {
			big = true
		}
	}
	nt := (len(lv) >= 2 && skip) || big || pages >= 2
	return vr.Meta{FP: fmt.Sprintf("%+v|%+v|%s|%s", c.Pages, c.Cfg, c.Form, c.Title), NonTrivial: nt, Labels: c.Labels}
}

func TestChunks(t *testing.T) {
	vr.Prop(t, "chunks", vr.N(12000, 300000), genCase, meta, checkCase)
}
