// C03 — Extraction is deterministic and free of cross-call interference.
//
// Generator: a history over a pool of documents of mixed formats: extract(doc,
// op), poison (calls on inputs that end mid-operand or fail), burst (k
// extractions of distinct documents on g goroutines released together),
// repeat. Oracle: baseline[doc][op] computed ALONE IN A FRESH PROCESS (package
// iso); every result of the history must be byte-identical to its baseline.
// The test binary is built with -race: a race report is a violation.
package c03

import (
	"bytes"
	"encoding/binary"
	"encoding/hex"
	"encoding/json"
	"fmt"
	"os"
	"path/filepath"
	"sort"
	"strings"
	"sync"
	"testing"

	"github.com/tsawler/tabula"
	"github.com/tsawler/tabula/contentstream"
	"github.com/tsawler/tabula/htmldoc"
	"github.com/tsawler/tabula/model"
	"github.com/tsawler/tabula/rag"
	"github.com/tsawler/tabula/reader"
	"github.com/tsawler/tabula/tables"
	"github.com/tsawler/tabula/text"
	"pgregory.net/rapid"

	"verif/harness/gen/epubw"
	"verif/harness/gen/frag"
	"verif/harness/gen/fragpdf"
	"verif/harness/gen/pdfw"
	"verif/harness/gen/pptxw"
	"verif/harness/gen/rawpdf"
	"verif/harness/iso"
	"verif/harness/vr"
)

// ---------------------------------------------------------------------------
// documents, addressed by a small integer so that a case is replayable

const nDocs = 53

// Documents numbered dynBase and above are made on demand, each with private operators of its own (inside a
// BX/EX compatibility section, ISO 32000-1 7.8.2, Table 32): the first parse of each is the first time the process
// meets those operator names. Their text is known analytically, so they need no baseline process.
const dynBase = 1000
const dynDocs = 4000

func formClash(variant int) []byte {
	win := "<< /Type /Font /Subtype /Type1 /BaseFont /Helvetica /Encoding /WinAnsiEncoding >>"
	mac := "<< /Type /Font /Subtype /Type1 /BaseFont /Helvetica /Encoding /MacRomanEncoding >>"
	form := "BT /F1 12 Tf 72 600 Td (form caf\\216 \\351) Tj ET"
	p1 := "BT /F1 12 Tf 72 700 Td (one caf\\351 \\216) Tj ET"
	p2 := "BT /F1 12 Tf 72 700 Td (two \\351t\\351 \\216) Tj ET"
	switch variant {
	case 0: // page 1 paints the form, then shows more text with its own /F1
		p1 += " /X0 Do BT /F1 12 Tf 72 500 Td (after \\351 \\216) Tj ET"
	case 1: // only page 2 paints the form
		p2 = "/X0 Do " + p2
	case 2: // both pages, form first
		p1 = "/X0 Do " + p1
		p2 = "/X0 Do " + p2 + " /X0 Do"
	case 3: // the form's own resources also rename the page's second font
		p1 += " /X0 Do BT /F2 12 Tf 72 500 Td (after \\351 \\216) Tj ET"
	}
	o := map[int]string{
		1: "<< /Type /Catalog /Pages 2 0 R >>",
		2: "<< /Type /Pages /Kids [3 0 R 4 0 R] /Count 2 /MediaBox [0 0 612 792] /Resources << /Font << /F1 5 0 R /F2 5 0 R >> /XObject << /X0 7 0 R >> >> >>",
		3: "<< /Type /Page /Parent 2 0 R /Contents 8 0 R >>",
		4: "<< /Type /Page /Parent 2 0 R /Contents 9 0 R >>",
		5: win,
		6: mac,
		7: rawpdf.Stream("/Type /XObject /Subtype /Form /BBox [0 0 612 792] /Resources << /Font << /F1 6 0 R /F2 6 0 R >> >>", form),
		8: rawpdf.Stream("", p1),
		9: rawpdf.Stream("", p2),
	}
	return rawpdf.Build(o, 1)
}

// navDoc: HTML whose elements carry a class and an id of which only one names navigation ("sidebar", "menu",
// "footer" ...), the same classes in every one of the four documents with other ids: a verdict remembered for
// a class (or an id) alone would be carried from one document into the next.
func navDoc(v int) []byte {
	classes := []string{"card", "box", "panel", "sidebar", "content", "menu"}
	ids := [][]string{
		{"sidebar", "main", "menu", "intro", "footer", "body1"},
		{"main", "sidebar", "intro", "menu", "body1", "footer"},
		{"nav", "x1", "x2", "x3", "x4", "x5"},
		{"x1", "navigation", "x3", "header", "x5", "x6"},
	}[v]
	var b strings.Builder
	fmt.Fprintf(&b, "<html><head><title>Nav %d</title></head><body><h1>Document %d</h1>", v, v)
	for k, cl := range classes {
		fmt.Fprintf(&b, "<div class=%q id=%q><p>text %d of document %d in class %s id %s</p></div>", cl, ids[k], k, v, cl, ids[k])
		fmt.Fprintf(&b, "<div id=%q><p>only id %d.%d</p></div><div class=%q><p>only class %d.%d</p></div>", ids[k]+"b", v, k, cl, v, k)
	}
	fmt.Fprintf(&b, "<table><tr><th>command</th><th>note %d</th></tr><tr><td>ls | wc -l</td><td>a\\b</td></tr><tr><td>x || y</td><td>two<br>lines</td></tr></table>", v)
	b.WriteString("</body></html>")
	return []byte(b.String())
}

func dynText(i int) string { return fmt.Sprintf("private %d", i) }

func dynDoc(i int) []byte {
	content := fmt.Sprintf("BX 1 2 zq%da /N%d zq%db EX BT /F1 12 Tf 72 700 Td (%s) Tj ET BX zr%dc EX", i, i, i, dynText(i), i)
	return rawpdf.Build(map[int]string{
		1: "<< /Type /Catalog /Pages 2 0 R >>",
		2: "<< /Type /Pages /Kids [3 0 R] /Count 1 >>",
		3: "<< /Type /Page /Parent 2 0 R /MediaBox [0 0 612 792] /Resources << /Font << /F1 4 0 R >> >> /Contents 5 0 R >>",
		4: "<< /Type /Font /Subtype /Type1 /BaseFont /Helvetica >>",
		5: rawpdf.Stream("", content),
	}, 1)
}

type docSpec struct {
	kind string // pdf | html | file
	ext  string
	data []byte
}

var (
	docMu    sync.Mutex
	docCache = map[int]*docSpec{}
	pathOf   = map[int]string{}
	tmpDir   string
)

var repoFiles = []string{"/repo/docx/testdata/table.docx", "/repo/xlsx/testdata/simple.xlsx", "/repo/odt/testdata/sample1.odt", "/repo/docx/testdata/hills.docx"}

func htmlDoc(i int) []byte {
	var b strings.Builder
	fmt.Fprintf(&b, "<html><head><title>Doc %d</title></head><body><nav><a href=a>n%d</a></nav><h1>Title %d</h1>", i, i, i)
	for k := 0; k < 3+i%4; k++ {
		fmt.Fprintf(&b, "<h2>Section %d.%d</h2><p>Paragraph %d of document %d with <b>bold</b> text &amp; entities.</p><ul><li>item a%d</li><li>item b%d<ul><li>nested</li></ul></li></ul>", i, k, k, i, k, k)
		fmt.Fprintf(&b, "<table><tr><th>k</th><th>v</th></tr><tr><td>%d</td><td>x|y</td></tr></table>", k)
	}
	b.WriteString("</body></html>")
	return []byte(b.String())
}

func getDoc(i int) *docSpec {
	docMu.Lock()
	defer docMu.Unlock()
	if d, ok := docCache[i]; ok {
		return d
	}
	var d *docSpec
	switch {
	case i >= dynBase:
		d = &docSpec{kind: "pdf", ext: ".pdf", data: dynDoc(i)}
	case i >= 52:
		// two pages with a raised mark each: on the short title page the marks make up a large share of the
		// baselines (its line grouping is decided by the gaps between baselines), on the full page behind it they
		// do not - whatever a line detector concluded on the first page must not reach the second
		var p1, p2 strings.Builder
		p1.WriteString("BT /F1 12 Tf 1 0 0 1 72 700 Tm (Quarterly report) Tj ET\nBT /F1 8 Tf 1 0 0 1 162 704 Tm (1) Tj ET\nBT /F1 12 Tf 1 0 0 1 72 680 Tm (Prepared by the finance team) Tj ET\n")
		p2.WriteString("BT /F1 12 Tf 1 0 0 1 72 700 Tm (Energy equals mc) Tj ET\nBT /F1 8 Tf 1 0 0 1 168 704 Tm (2) Tj ET\n")
		for k := 1; k <= 11; k++ {
			fmt.Fprintf(&p2, "BT /F1 12 Tf 1 0 0 1 72 %d Tm (Body line number %d of the page) Tj ET\n", 700-14*k, k)
		}
		d = &docSpec{kind: "pdf", ext: ".pdf", data: rawpdf.Build(map[int]string{
			1: "<< /Type /Catalog /Pages 2 0 R >>",
			2: "<< /Type /Pages /Kids [3 0 R 4 0 R] /Count 2 /MediaBox [0 0 612 792] /Resources << /Font << /F1 5 0 R >> >> >>",
			3: "<< /Type /Page /Parent 2 0 R /Contents 6 0 R >>",
			4: "<< /Type /Page /Parent 2 0 R /Contents 7 0 R >>",
			5: "<< /Type /Font /Subtype /Type1 /BaseFont /Helvetica >>",
			6: rawpdf.Stream("", p1.String()),
			7: rawpdf.Stream("", p2.String()),
		}, 1)}
	case i >= 50:
		// packages of the two container formats the repository has no sample of: an EPUB (50) and a presentation (51)
		if i == 50 {
			b := epubw.Book{Version: "3.0", OPFPath: "OEBPS/content.opf", Title: "Pool book", Creator: "A", Language: "en", Identifier: "urn:uuid:c03"}
			for k := 0; k < 3; k++ {
				b.Items = append(b.Items, epubw.Item{ID: fmt.Sprintf("ch%d", k), Path: fmt.Sprintf("ch%d.xhtml", k),
					Chapter: epubw.Chapter{Heading: fmt.Sprintf("Chapter %d", k+1), Paras: []string{fmt.Sprintf("Paragraph one of chapter %d.", k+1), "Second paragraph."}}})
				b.Spine = append(b.Spine, epubw.SpineRef{Item: k})
			}
			b.Items = append(b.Items, epubw.Item{ID: "nav", Path: "nav.xhtml", Role: "nav"})
			data, err := b.Bytes()
			if err != nil {
				panic("INFRA: " + err.Error())
			}
			d = &docSpec{kind: "file", ext: ".epub", data: data}
		} else {
			dk := pptxw.Deck{Slides: []pptxw.Slide{{Title: "First slide", Body: []pptxw.Para{{Text: "point one", Bullet: "char"}, {Text: "point two", Bullet: "char"}}},
				{Title: "Second slide", Body: []pptxw.Para{{Text: "closing words", Bullet: "none"}}}}}
			data, err := dk.Bytes()
			if err != nil {
				panic("INFRA: " + err.Error())
			}
			d = &docSpec{kind: "file", ext: ".pptx", data: data}
		}
	case i >= 48:
		// a ToUnicode CMap whose bfrange entries overlap in several ways (48: scalar targets, 49: with bfchar entries
		// for some of the codes as well): whichever entry the library lets win, it is the same one every time
		cm := "/CIDInit /ProcSet findresource begin\n12 dict begin\nbegincmap\n/CMapName /Overlap def\n/CMapType 2 def\n1 begincodespacerange\n<00> <FF>\nendcodespacerange\n"
		if i == 49 {
			cm += "3 beginbfchar\n<41> <0058>\n<42> <0059>\n<7A> <005A>\nendbfchar\n"
		}
		cm += "7 beginbfrange\n<41> <5A> <0391>\n<40> <5B> <0400>\n<30> <7A> <0100>\n<20> <7E> <1E00>\n<41> <43> <2460>\n<10> <FE> <2100>\n<61> <7A> <03B1>\nendbfrange\nendcmap\nCMapName currentdict /CMap defineresource pop\nend\nend\n"
		d = &docSpec{kind: "pdf", ext: ".pdf", data: rawpdf.Build(map[int]string{
			1: "<< /Type /Catalog /Pages 2 0 R >>",
			2: "<< /Type /Pages /Kids [3 0 R] /Count 1 /MediaBox [0 0 612 792] >>",
			3: "<< /Type /Page /Parent 2 0 R /Resources << /Font << /F1 5 0 R >> >> /Contents 7 0 R >>",
			5: "<< /Type /Font /Subtype /Type1 /BaseFont /Helvetica /ToUnicode 6 0 R >>",
			6: rawpdf.Stream("", cm),
			7: rawpdf.Stream("", "BT /F1 12 Tf 72 700 Td (ABC XYZ) Tj 0 -14 Td (019 az @[) Tj ET"),
		}, 1)}
	case i >= 46:
		// the content of page 2 sits behind two filters and the second one fails (46: the unsupported LZWDecode, 47: a
		// Flate layer that is no zlib data); what the first filter yields is itself a readable content stream. A reader
		// that remembers the half-decoded bytes shows them on the second visit
		second := []string{"/LZWDecode", "/FlateDecode"}[i-46]
		d = &docSpec{kind: "pdf", ext: ".pdf", data: rawpdf.Build(map[int]string{
			1: "<< /Type /Catalog /Pages 2 0 R >>",
			2: "<< /Type /Pages /Kids [3 0 R 4 0 R] /Count 2 /MediaBox [0 0 612 792] /Resources << /Font << /F1 5 0 R >> >> >>",
			3: "<< /Type /Page /Parent 2 0 R /Contents 6 0 R >>",
			4: "<< /Type /Page /Parent 2 0 R /Contents 7 0 R >>",
			5: "<< /Type /Font /Subtype /Type1 /BaseFont /Helvetica >>",
			6: rawpdf.Stream("", "BT /F1 12 Tf 72 700 Td (Readable page) Tj ET"),
			7: rawpdf.Stream("/Filter [/ASCIIHexDecode "+second+"]", strings.ToUpper(hex.EncodeToString([]byte("BT /F1 12 Tf 72 700 Td (Undecodable) Tj ET")))+">"),
		}, 1)}
	case i >= 44:
		// page 1 shows text with a font /F1 that has a ToUnicode map; page 2 also says /F1, but there it is a font
		// the text extractor does not load (a Type 3 font; or no font of that name at all): whatever page 2 yields
		// alone, it must yield after page 1 as well
		tu := rawpdf.Stream("", string(pdfw.ToUnicodeCMap([]pdfw.MapEnt{{Code: 0x48, Text: "X"}, {Code: 0x45, Text: "Y"}, {Code: 0x4C, Text: "Z"}, {Code: 0x4F, Text: "W"}}, 1)))
		p2res := "<< /Font << /F1 7 0 R >> >>"
		if i == 45 {
			p2res = "<< /ProcSet [/PDF /Text] >>"
		}
		d = &docSpec{kind: "pdf", ext: ".pdf", data: rawpdf.Build(map[int]string{
			1:  "<< /Type /Catalog /Pages 2 0 R >>",
			2:  "<< /Type /Pages /Kids [3 0 R 4 0 R] /Count 2 /MediaBox [0 0 612 792] >>",
			3:  "<< /Type /Page /Parent 2 0 R /Resources << /Font << /F1 5 0 R >> >> /Contents 8 0 R >>",
			4:  "<< /Type /Page /Parent 2 0 R /Resources " + p2res + " /Contents 9 0 R >>",
			5:  "<< /Type /Font /Subtype /Type1 /BaseFont /Helvetica /ToUnicode 6 0 R >>",
			6:  tu,
			7:  "<< /Type /Font /Subtype /Type3 /FontBBox [0 0 750 750] /FontMatrix [0.001 0 0 0.001 0 0] /CharProcs << /sq 10 0 R >> /Encoding << /Type /Encoding /Differences [72 /sq] >> /FirstChar 72 /LastChar 72 /Widths [750] >>",
			8:  rawpdf.Stream("", "BT /F1 12 Tf 72 700 Td (HELLO) Tj ET"),
			9:  rawpdf.Stream("", "BT /F1 12 Tf 72 700 Td (HELLO) Tj ET"),
			10: rawpdf.Stream("", "750 0 0 0 750 750 d1 0 0 750 750 re f"),
		}, 1)}
	case i >= 40:
		d = &docSpec{kind: "html", ext: ".html", data: navDoc(i - 40)}
	case i >= 36:
		// a Form XObject whose resources name another font /F1 than the page's inherited, shared resources do
		d = &docSpec{kind: "pdf", ext: ".pdf", data: formClash(i - 36)}
	case i >= 32:
		// twins: identical structure and object numbering, same /BaseFont, different /Encoding (32,33) resp.
		// different /ToUnicode (34,35), text on codes the encodings disagree on - anything cached across
		// documents by object number or font name shows
		kind := []string{"t1win", "t1mac", "tu1", "tu1"}[i-32]
		f := pdfw.FontSpec{Res: "F1", Kind: kind, Base: "Helvetica"}
		if kind == "tu1" {
			tgt := []string{"x", "y"}[i-34]
			for c := 0x41; c <= 0x5A; c++ {
				f.Map = append(f.Map, pdfw.MapEnt{Code: c, Text: tgt + string(rune(c+0x20))})
			}
			f.Map = append(f.Map, pdfw.MapEnt{Code: 0x8E, Text: tgt + "#"})
		}
		doc := pdfw.Doc{Fonts: []pdfw.FontSpec{f}}
		for pg := 1; pg <= 2; pg++ {
			page := pdfw.Page{ID: pg, MediaBox: [4]float64{0, 0, 612, 792}}
			for k := 0; k < 4; k++ {
				b := []byte{'C', 'A', 'F', 0x8E, byte('A' + k), 0x80 + byte(k), 0xD5}
				page.Lines = append(page.Lines, pdfw.Line{Font: 0, Size: 12, X: 72, Y: float64(700 - 40*k), Bytes: b, Text: "(not compared)"})
			}
			doc.Pages = append(doc.Pages, page)
		}
		d = &docSpec{kind: "pdf", ext: ".pdf", data: pdfw.Write([]pdfw.Doc{doc}, pdfw.Layout{}).Bytes}
	case i >= 24:
		// synthetic layouts (columns, headings, lists, raised footnote marks, character-level text, …): many
		// more decisions inside layout analysis than the simple pages of the random PDFs
		data := rapid.Custom(func(t *rapid.T) []byte {
			for {
				pgs := []frag.Page{frag.GenPage(t, frag.Opts{}), frag.GenPage(t, frag.Opts{Light: true, TokenBase: 5000})}
				if b, err := fragpdf.Lower(pgs); err == nil {
					return b
				}
			}
		}).Example(2000 + i)
		d = &docSpec{kind: "pdf", ext: ".pdf", data: data}
	case i%4 == 3:
		d = &docSpec{kind: "html", ext: ".html", data: htmlDoc(i)}
	case i%4 == 2:
		p := repoFiles[(i/4)%len(repoFiles)]
		b, err := os.ReadFile(p)
		if err != nil {
			panic("INFRA: " + err.Error())
		}
		d = &docSpec{kind: "file", ext: filepath.Ext(p), data: b}
	default:
		c := rapid.Custom(func(t *rapid.T) []byte {
			docs := pdfw.GenDocs(t, 2)
			return pdfw.Write(docs, pdfw.GenLayout(t, len(docs))).Bytes
		}).Example(1000 + i)
		d = &docSpec{kind: "pdf", ext: ".pdf", data: c}
	}
	docCache[i] = d
	return d
}

func docPath(i int) string {
	d := getDoc(i)
	docMu.Lock()
	defer docMu.Unlock()
	if p, ok := pathOf[i]; ok {
		return p
	}
	if tmpDir == "" {
		tmpDir = os.Getenv("VERIF_C03_TMP") // worker: share the parent's files
	}
	p := filepath.Join(tmpDir, fmt.Sprintf("doc%d%s", i, d.ext))
	if _, err := os.Stat(p); err != nil {
		if err := os.WriteFile(p, d.data, 0o644); err != nil {
			panic("INFRA: " + err.Error())
		}
	}
	pathOf[i] = p
	return p
}

var ops = []string{"text", "markdown", "jsonl", "csv", "document", "contentstream", "sharedreader", "chunkops", "htmlnav", "tables", "extractorreuse", "coldburst", "facadereuse", "layoutpages"}

// runOp performs one extraction and returns a canonical byte string of its result.
func runOp(doc int, op string) string {
	d := getDoc(doc)
	open := func() *tabula.Extractor {
		if d.kind == "html" && doc%8 == 3 {
			return tabula.FromHTMLString(string(d.data))
		}
		return tabula.Open(docPath(doc))
	}
	switch op {
	case "text":
		s, _, err := open().Text()
		return fmt.Sprintf("err=%v\n%s", err, s)
	case "markdown":
		s, _, err := open().ToMarkdown()
		return fmt.Sprintf("err=%v\n%s", err, s)
	case "jsonl":
		cc, _, err := open().Chunks()
		if err != nil || cc == nil {
			return fmt.Sprintf("err=%v", err)
		}
		s, err := cc.ToJSONL()
		return fmt.Sprintf("err=%v\n%s", err, s)
	case "csv":
		cc, _, err := open().Chunks()
		if err != nil || cc == nil {
			return fmt.Sprintf("err=%v", err)
		}
		s, err := cc.ToCSV()
		return fmt.Sprintf("err=%v\n%s", err, s)
	case "document":
		dm, _, err := open().Document()
		if err != nil || dm == nil {
			return fmt.Sprintf("err=%v", err)
		}
		var b strings.Builder
		fmt.Fprintf(&b, "meta=%+v\n", dm.Metadata)
		for _, p := range dm.Pages {
			fmt.Fprintf(&b, "page %d %gx%g elements=%d\n%s\n", p.Number, p.Width, p.Height, len(p.Elements), p.ExtractText())
			for _, e := range p.Elements {
				fmt.Fprintf(&b, "  %v %+v\n", e.Type(), e.BoundingBox())
			}
		}
		return b.String()
	case "tables":
		// the table detectors of the process-wide registry (tables.GetDetector), on a table-like page that
		// depends on the document number only
		page := model.NewPage(612, 792)
		rows, cols := 3+doc%5, 2+doc%4
		for i := 0; i < rows; i++ {
			for j := 0; j < cols; j++ {
				page.RawText = append(page.RawText, model.TextFragment{Text: fmt.Sprintf("d%dr%dc%d", doc, i, j), FontSize: 10,
					BBox: model.BBox{X: float64(72 + j*(70+doc%7)), Y: float64(700 - i*(16+doc%5)), Width: 40, Height: 10}})
			}
		}
		var b strings.Builder
		names := tables.ListDetectors()
		sort.Strings(names)
		for _, name := range names {
			det := tables.GetDetector(name)
			if det == nil {
				continue
			}
			ts, err := det.Detect(page)
			fmt.Fprintf(&b, "detector %s err=%v tables=%d\n", name, err, len(ts))
			for _, tb := range ts {
				fmt.Fprintf(&b, "%+v\n%s\n", tb.BBox, tb.GetText())
			}
		}
		return b.String()
	case "htmlnav":
		// the HTML reader with its default (Standard) and with Aggressive navigation exclusion
		if d.kind != "html" {
			return "n/a"
		}
		var b strings.Builder
		for _, mode := range []htmldoc.NavigationExclusionMode{htmldoc.NavigationExclusionStandard, htmldoc.NavigationExclusionAggressive, htmldoc.NavigationExclusionExplicit} {
			r, err := htmldoc.OpenReader(bytes.NewReader(d.data))
			if err != nil {
				return fmt.Sprintf("err=%v", err)
			}
			o := htmldoc.DefaultExtractOptions()
			o.NavigationExclusion = mode
			t, e1 := r.TextWithOptions(o)
			m, e2 := r.MarkdownWithOptions(o)
			fmt.Fprintf(&b, "mode %v err=%v %v\n%s\n--\n%s\n", mode, e1, e2, t, m)
			r.Close()
		}
		// one reader asked several times: every answer must be the one a fresh reader gives
		fresh := func() *htmldoc.Reader {
			r, _ := htmldoc.OpenReader(bytes.NewReader(d.data))
			return r
		}
		if one := fresh(); one != nil {
			dump := func(r *htmldoc.Reader) string {
				doc, err := r.Document()
				if err != nil || doc == nil {
					return fmt.Sprint(err)
				}
				var sb strings.Builder
				for _, pg := range doc.Pages {
					for _, el := range pg.Elements {
						fmt.Fprintf(&sb, "%T %+v\n", el, el)
					}
				}
				return sb.String()
			}
			m1, _ := one.Markdown()
			t1, _ := one.Text()
			d1 := dump(one)
			m2, _ := one.Markdown()
			t0, _ := fresh().Text()
			fmt.Fprintf(&b, "one reader: second Markdown() equal=%v, Text() after Markdown() equal=%v, Document() after Markdown() equal=%v\n", m1 == m2, t1 == t0, d1 == dump(fresh()))
		}
		return b.String()
	case "chunkops":
		// rendering a chunk collection must not change it: the same export before and after
		cc, _, err := open().Chunks()
		if err != nil || cc == nil {
			return fmt.Sprintf("err=%v", err)
		}
		j1, _ := cc.ToJSONL()
		c1, _ := cc.ToCSV()
		toc := rag.MarkdownOptions{IncludeTableOfContents: true, IncludeMetadata: true}
		t1 := cc.ToMarkdownWithOptions(toc)
		var b strings.Builder
		for _, ch := range cc.Chunks {
			b.WriteString(ch.ToMarkdown())
			b.WriteString("\n")
		}
		for _, m := range cc.ToMarkdownChunks() {
			b.WriteString(m)
		}
		if len(cc.Chunks) > 1 {
			b.WriteString(cc.Filter(func(c *rag.Chunk) bool { return c.Metadata.ChunkIndex%2 == 1 }).ToMarkdown())
		}
		// ... nor does asking it questions: every query that selects - a word of the last chunk (so the first
		// ones do not match), pages, sections, element types, token bounds - and every statistic
		if n := len(cc.Chunks); n > 0 {
			word := ""
			for _, w := range strings.Fields(cc.Chunks[n-1].Text) {
				if len(w) > len(word) {
					word = w
				}
			}
			fmt.Fprintf(&b, "\nqueries: search=%d", cc.Search(word).Count())
			lo, hi := cc.GetPageRange()
			fmt.Fprintf(&b, " page=%d range=%d", cc.FilterByPage(hi).Count(), cc.FilterByPageRange(lo, hi).Count())
			for _, sec := range cc.GetAllSections() {
				fmt.Fprintf(&b, " section=%d", cc.FilterBySection(sec).Count())
			}
			fmt.Fprintf(&b, " paragraph=%d tables=%d lists=%d images=%d min=%d max=%d tokens=%d words=%d stats=%+v", cc.FilterByElementType("paragraph").Count(),
				cc.FilterWithTables().Count(), cc.FilterWithLists().Count(), cc.FilterWithImages().Count(),
				cc.FilterByMinTokens(cc.Chunks[n-1].Metadata.EstimatedTokens).Count(), cc.FilterByMaxTokens(cc.Chunks[n-1].Metadata.EstimatedTokens).Count(),
				cc.GetTotalTokens(), cc.GetTotalWords(), cc.Statistics())
			_ = cc.ToSlice()
			_, _ = cc.First(), cc.Last()
		}
		j2, _ := cc.ToJSONL()
		c2, _ := cc.ToCSV()
		t2 := cc.ToMarkdownWithOptions(toc)
		return fmt.Sprintf("%s\nJSONL after rendering every chunk: equal=%v\nCSV: equal=%v\nMarkdown with contents: equal=%v\n%s", j1, j1 == j2, c1 == c2, t1 == t2, b.String())
	case "sharedreader":
		// several extractions through one reader.Reader: the later ones must not see what the earlier ones did
		if d.kind != "pdf" {
			return "n/a"
		}
		r, err := reader.Open(docPath(doc))
		if err != nil {
			return fmt.Sprintf("err=%v", err)
		}
		defer r.Close()
		first, _, e1 := tabula.FromReader(r).Text()
		n, _ := r.PageCount()
		var b strings.Builder
		fmt.Fprintf(&b, "err=%v\n%s\n", e1, first)
		for p := n; p >= 1; p-- {
			shared, _, es := tabula.FromReader(r).Pages(p).Text()
			alone, _, ea := tabula.Open(docPath(doc)).Pages(p).Text()
			fmt.Fprintf(&b, "page %d through the shared reader equals the page read alone: equal=%v\n", p, shared == alone && (es == nil) == (ea == nil))
		}
		again, _, e2 := tabula.FromReader(r).Text()
		fmt.Fprintf(&b, "second Text() through the shared reader: equal=%v\n", again == first && (e1 == nil) == (e2 == nil))
		return b.String()
	case "coldburst":
		// eight goroutines, released together, read the four navigation documents under Standard and Aggressive
		// exclusion. In the fresh process that computes the baseline this is the first HTML work of the process:
		// whatever the package sets up lazily on first use is set up by all of them at once (the processes are
		// built with -race)
		if d.kind != "html" {
			return "n/a"
		}
		out := make([]string, 8)
		start := make(chan struct{})
		var wg sync.WaitGroup
		for g := 0; g < 8; g++ {
			wg.Add(1)
			go func(g int) {
				defer wg.Done()
				<-start
				r, err := htmldoc.OpenReader(bytes.NewReader(navDoc(g % 4)))
				if err != nil {
					out[g] = err.Error()
					return
				}
				o := htmldoc.DefaultExtractOptions()
				if g >= 4 {
					o.NavigationExclusion = htmldoc.NavigationExclusionAggressive
				}
				t, _ := r.TextWithOptions(o)
				m, _ := r.MarkdownWithOptions(o)
				out[g] = t + "\n--\n" + m
			}(g)
		}
		close(start)
		wg.Wait()
		return strings.Join(out, "\n====\n")
	case "layoutpages":
		// the layout views of the whole document are those of its pages read alone, one after the other: what a
		// detector learnt on one page does not reach the next
		if d.kind != "pdf" {
			return "n/a"
		}
		n, err := open().PageCount()
		if err != nil || n < 2 || n > 8 {
			return fmt.Sprintf("n/a pages=%d err=%v", n, err)
		}
		dumpLines := func(e *tabula.Extractor) string {
			ls, err := e.Lines()
			var sb strings.Builder
			fmt.Fprintf(&sb, "err=%v;", err)
			for _, l := range ls {
				fmt.Fprintf(&sb, "%q|", l.Text)
			}
			return sb.String()
		}
		whole := dumpLines(open())
		if !strings.HasPrefix(whole, "err=<nil>;") {
			return "n/a (a page cannot be read): " + whole
		}
		var parts strings.Builder
		parts.WriteString("err=<nil>;")
		for p := 1; p <= n; p++ {
			one := dumpLines(open().Pages(p))
			parts.WriteString(strings.TrimPrefix(one, "err=<nil>;"))
		}
		return fmt.Sprintf("%s\nlines of the whole document are the lines of its pages read alone: equal=%v", whole, whole == parts.String())
	case "facadereuse":
		// one tabula.Extractor value asked several times, and extractors derived from it after it has been used:
		// every answer is the one a fresh extractor gives ("extraction is a pure function of the document")
		var sb strings.Builder
		func() {
			defer func() {
				if r := recover(); r != nil {
					fmt.Fprintf(&sb, "\npanic=%v equal=false", r)
				}
			}()
			e := open()
			t1, _, err1 := e.Text()
			t2, _, err2 := e.Text()
			m1, _, errm := e.ToMarkdown()
			t3, _, err3 := e.ExcludeHeaders().Text()
			n, errn := e.PageCount()
			e.Close()
			t4, _, err4 := e.Text()
			ft, _, ferr := open().Text()
			fm, _, fmerr := open().ToMarkdown()
			fx, _, fxerr := open().ExcludeHeaders().Text()
			fn, fnerr := open().PageCount()
			// ... and one with a page selection: what it selects is the same pages every time
			sel := open().Pages(1)
			if fn >= 3 {
				sel = open().Pages(3, 2)
			}
			s1, _, serr1 := sel.Text()
			s2, _, serr2 := sel.Text()
			s3, _, serr3 := sel.ExcludeFooters().Text()
			fs, _, fserr := open().Pages(1).Text()
			fsx, _, fsxerr := open().Pages(1).ExcludeFooters().Text()
			if fn >= 3 {
				fs, _, fserr = open().Pages(3, 2).Text()
				fsx, _, fsxerr = open().Pages(3, 2).ExcludeFooters().Text()
			}
			same := func(a, b string, ea, eb error) bool { return a == b && fmt.Sprint(ea) == fmt.Sprint(eb) }
			fmt.Fprintf(&sb, "text err=%v len=%d pages=%d\nsecond Text: equal=%v, ToMarkdown after Text: equal=%v, derived ExcludeHeaders().Text(): equal=%v, PageCount: equal=%v, Text after Close: equal=%v",
				err1, len(t1), n, same(t2, ft, err2, ferr) && same(t1, ft, err1, ferr), same(m1, fm, errm, fmerr), same(t3, fx, err3, fxerr),
				n == fn && fmt.Sprint(errn) == fmt.Sprint(fnerr), same(t4, ft, err4, ferr))
			fmt.Fprintf(&sb, ", a page selection asked twice: equal=%v, derived from it after use: equal=%v",
				same(s1, fs, serr1, fserr) && same(s2, fs, serr2, fserr), same(s3, fsx, serr3, fsxerr))
		}()
		return sb.String()
	case "extractorreuse":
		// one text.Extractor used for two content streams in turn: what it returned for the first one stays as it
		// was, and the second answer is the one a fresh extractor gives
		a := []byte(fmt.Sprintf("BT /F1 12 Tf 72 700 Td (Alpha %d) Tj 0 -14 Td (Bravo) Tj 0 -14 Td (Charlie) Tj ET", doc))
		b := []byte(fmt.Sprintf("BT /F1 10 Tf 50 600 Td (Xray %d) Tj 0 -12 Td (Yankee) Tj ET", doc))
		dump := func(fs []text.TextFragment) string {
			var sb strings.Builder
			for _, f := range fs {
				fmt.Fprintf(&sb, "%q@%.2f,%.2f/%.1f ", f.Text, f.X, f.Y, f.FontSize)
			}
			return sb.String()
		}
		e := text.NewExtractor()
		ra, _ := e.ExtractFromBytes(a)
		raw := e.GetFragmentsRaw()
		before, beforeRaw := dump(ra), dump(raw)
		rb, _ := e.ExtractFromBytes(b)
		fresh, _ := text.NewExtractor().ExtractFromBytes(b)
		return fmt.Sprintf("%s\n%s\nfirst result after the second extraction: equal=%v, raw fragments: equal=%v, second result as from a fresh extractor: equal=%v",
			before, dump(rb), dump(ra) == before, dump(raw) == beforeRaw, dump(rb) == dump(fresh))
	case "contentstream":
		// the anchor of the property: parse a content stream directly
		prog := []byte(fmt.Sprintf("q 1 0 0 1 %d 10 cm BT /F1 12 Tf 72 700 Td (doc %d) Tj [(a) -120 (b)] TJ ET Q", doc, doc))
		o, err := contentstream.NewParser(prog).Parse()
		return fmt.Sprintf("err=%v\n%v", err, o)
	}
	return "?"
}

// ---------------------------------------------------------------------------
// worker: computes one baseline per request; the parent spawns a fresh process for each

func extractEntry(payload []byte) (string, error) {
	doc := int(binary.LittleEndian.Uint32(payload[:4]))
	return runOp(doc, string(payload[4:])), nil
}

func TestMain(m *testing.M) {
	if iso.IsWorker() {
		iso.AddressSpaceLimit = 0 // the race detector reserves a huge address range
		iso.WorkerMain(map[string]iso.Entry{"extract": extractEntry})
	}
	t, err := os.MkdirTemp("", "verif-c03-")
	if err != nil {
		fmt.Println("INFRA:", err)
		os.Exit(3)
	}
	tmpDir = t
	vr.AtExit(func() { os.RemoveAll(t) })
	vr.Main(m)
}

var (
	baseMu   sync.Mutex
	baseline = map[string]string{}
)

// baselineOf returns the result of (doc, op) computed alone in a process that did nothing else.
func baselineOf(doc int, op string) (string, error) {
	if doc >= dynBase { // only "text" is ever asked of these
		return fmt.Sprintf("err=%v\n%s", nil, dynText(doc)), nil
	}
	key := fmt.Sprintf("%d/%s", doc, op)
	baseMu.Lock()
	defer baseMu.Unlock()
	if b, ok := baseline[key]; ok {
		return b, nil
	}
	if d := getDoc(doc); d.kind != "html" || doc%8 != 3 {
		docPath(doc)
	}
	p, err := iso.NewPool(os.Args[0], 1, "VERIF_C03_TMP="+tmpDir, "GORACE=halt_on_error=1")
	if err != nil {
		return "", fmt.Errorf("INFRA: cannot start baseline process: %v", err)
	}
	defer p.Close()
	payload := make([]byte, 4)
	binary.LittleEndian.PutUint32(payload, uint32(doc))
	v := p.Run("extract", append(payload, op...))
	if v.Kind == "race" {
		return "", fmt.Errorf("the race detector reports a data race in a fresh process that ran %s of document %d and nothing else:\n%s", op, doc, v.Msg)
	}
	if v.Kind != "ok" {
		return "", fmt.Errorf("INFRA: baseline process for %s: %s %s", key, v.Kind, v.Msg)
	}
	baseline[key] = v.Out
	return v.Out, nil
}

// ---------------------------------------------------------------------------
// histories

type Step struct {
	Kind string `json:"kind"` // extract | poison | burst | repeat
	Doc  int    `json:"doc,omitempty"`
	Op   string `json:"op,omitempty"`
	Docs []int  `json:"docs,omitempty"` // burst: distinct documents
	G    int    `json:"g,omitempty"`    // burst: goroutines
	N    int    `json:"n,omitempty"`    // repeat count
	What string `json:"what,omitempty"` // poison kind
}

type Case struct {
	Steps []Step `json:"steps"`
}

func init() { vr.Register("history", checkCase) }

func poison(what string) {
	switch what {
	case "operands-only":
		contentstream.NewParser([]byte("1 2 3 (left) /Over")).Parse()
	case "open-array":
		contentstream.NewParser([]byte("BT [ (a) -1 (b")).Parse()
		text.NewExtractor().ExtractFromBytes([]byte("BT /F1 12 Tf [ (a)"))
	case "open-dict":
		func() {
			defer func() { recover() }() // a crash here belongs to C02, not to this property
			contentstream.NewParser([]byte("/P << /MCID 1 ")).Parse()
		}()
	case "open-string":
		contentstream.NewParser([]byte("BT /F1 12 Tf 72 700 Td (CONFIDENTIAL dra")).Parse()
		text.NewExtractor().ExtractFromBytes([]byte("BT /F1 12 Tf (left \\(over"))
	case "bad-hex":
		contentstream.NewParser([]byte("BT /F1 12 Tf <414243zz4445> Tj ET")).Parse()
		contentstream.NewParser([]byte("BT <4142")).Parse()
	case "damaged-content-pdf":
		// a whole file whose page content ends inside a literal string: the failure runs through the full pipeline
		d := pdfw.Doc{Fonts: []pdfw.FontSpec{{Res: "F1", Kind: "t1win", Base: "Helvetica"}},
			Pages: []pdfw.Page{{ID: 1, MediaBox: [4]float64{0, 0, 612, 792}, Lines: []pdfw.Line{{Font: 0, Size: 12, X: 72, Y: 700, Bytes: []byte("SECRET"), Text: "SECRET"}}}}}
		b := pdfw.Write([]pdfw.Doc{d}, pdfw.Layout{}).Bytes
		b = bytes.Replace(b, []byte("(SECRET) Tj ET"), []byte("(SECRET  Tj ET"), 1) // same length: the xref stays valid
		p := filepath.Join(os.TempDir(), fmt.Sprintf("verif-c03-damaged-%d.pdf", os.Getpid()))
		os.WriteFile(p, b, 0o644)
		tabula.Open(p).Text()
		tabula.Open(p).ToMarkdown()
		tabula.Open(p).Fragments()
		os.Remove(p)
	case "missing-file":
		tabula.Open(filepath.Join(os.TempDir(), "verif-c03-does-not-exist.pdf")).Text()
	case "garbage-pdf":
		p := filepath.Join(os.TempDir(), fmt.Sprintf("verif-c03-garbage-%d.pdf", os.Getpid()))
		os.WriteFile(p, []byte("%PDF-1.4\n1 0 obj\n<< /A [1 2 >>\nendobj\ntrailer\n<< /Root 1 0 R >>\nstartxref\n9\n%%EOF"), 0o644)
		tabula.Open(p).Text()
		tabula.Open(p).ToMarkdown()
		os.Remove(p)
	case "bad-html":
		tabula.FromHTMLString("<table><tr><td><ul><li>x").Text()
	}
}

func compare(where string, doc int, op, got string) error {
	want, err := baselineOf(doc, op)
	if err != nil {
		return err
	}
	if op == "extractorreuse" && strings.Contains(got, "equal=false") {
		return fmt.Errorf("%s: a text.Extractor used for a second content stream: %s", where, got)
	}
	if op == "layoutpages" && strings.Contains(got, "equal=false") {
		return fmt.Errorf("%s: Lines() of document %d differ from the lines of its pages read alone: %.300s", where, doc, got)
	}
	if op == "facadereuse" && strings.Contains(got, "equal=false") {
		return fmt.Errorf("%s: one tabula.Extractor of document %d asked again (or derived from after use) answers differently from a fresh one: %.400s", where, doc, got)
	}
	if op == "htmlnav" && strings.Contains(got, "equal=false") {
		return fmt.Errorf("%s: one htmldoc.Reader of document %d gives different answers when asked again: %.300s", where, doc, got[strings.Index(got, "one reader:"):])
	}
	if op == "sharedreader" && strings.Contains(got, "equal=false") {
		return fmt.Errorf("%s: extractions of document %d through one shared reader.Reader interfere with each other:\n%s", where, doc, got)
	}
	if op == "chunkops" && strings.Contains(got, "equal=false") {
		i := strings.Index(got, "JSONL after rendering")
		return fmt.Errorf("%s: rendering the chunks of document %d changed the collection (the same export differs before and after): %.300s", where, doc, got[i:])
	}
	if got != want {
		i := 0
		for i < len(got) && i < len(want) && got[i] == want[i] {
			i++
		}
		lo := i - 40
		if lo < 0 {
			lo = 0
		}
		return fmt.Errorf("%s: %s of document %d (%s) differs from the result computed alone in a fresh process; first difference at byte %d:\n got  …%.120q\n want …%.120q",
			where, op, doc, getDoc(doc).ext, i, got[lo:], want[lo:])
	}
	return nil
}

func checkCase(c Case) error {
	for i, st := range c.Steps {
		where := fmt.Sprintf("step %d (%s)", i, st.Kind)
		switch st.Kind {
		case "poison":
			poison(st.What)
		case "extract":
			if err := compare(where, st.Doc, st.Op, runOp(st.Doc, st.Op)); err != nil {
				return err
			}
		case "repeat":
			for k := 0; k < st.N; k++ {
				if err := compare(fmt.Sprintf("%s, repetition %d", where, k), st.Doc, st.Op, runOp(st.Doc, st.Op)); err != nil {
					return err
				}
			}
		case "burst":
			// baselines first (they spawn processes), then release all goroutines at once
			for _, d := range st.Docs {
				if _, err := baselineOf(d, st.Op); err != nil {
					return err
				}
				getDoc(d)
				if getDoc(d).kind != "html" || d%8 != 3 {
					docPath(d)
				}
			}
			g := st.G
			if g < 1 {
				g = 1
			}
			start := make(chan struct{})
			results := make([]string, len(st.Docs))
			var wg sync.WaitGroup
			sem := make(chan struct{}, g)
			for k, d := range st.Docs {
				wg.Add(1)
				go func(k, d int) {
					defer wg.Done()
					<-start
					sem <- struct{}{}
					defer func() { <-sem }()
					defer func() {
						if r := recover(); r != nil {
							results[k] = fmt.Sprintf("PANIC: %v", r)
						}
					}()
					results[k] = runOp(d, st.Op)
				}(k, d)
			}
			close(start)
			wg.Wait()
			for k, d := range st.Docs {
				if err := compare(fmt.Sprintf("%s on %d goroutines", where, g), d, st.Op, results[k]); err != nil {
					return err
				}
			}
		}
	}
	return nil
}

func genCase(t *rapid.T) Case {
	var c Case
	n := rapid.IntRange(2, 12).Draw(t, "steps")
	for i := 0; i < n; i++ {
		switch rapid.SampledFrom([]string{"extract", "extract", "poison", "poison", "burst", "repeat"}).Draw(t, "kind") {
		case "extract":
			c.Steps = append(c.Steps, Step{Kind: "extract", Doc: rapid.IntRange(0, nDocs-1).Draw(t, "doc"), Op: rapid.SampledFrom(ops).Draw(t, "op")})
		case "poison":
			c.Steps = append(c.Steps, Step{Kind: "poison", What: rapid.SampledFrom([]string{"operands-only", "operands-only", "open-array", "open-dict", "open-string", "open-string", "bad-hex", "damaged-content-pdf", "missing-file", "garbage-pdf", "bad-html"}).Draw(t, "what")})
		case "burst":
			k := rapid.IntRange(2, 8).Draw(t, "k")
			first := rapid.IntRange(0, nDocs-1).Draw(t, "first")
			stride := rapid.SampledFrom([]int{1, 5, 7}).Draw(t, "stride")
			var ds []int
			for j := 0; j < k; j++ {
				ds = append(ds, (first+j*stride)%nDocs)
			}
			op := rapid.SampledFrom(ops).Draw(t, "op")
			if rapid.IntRange(0, 2).Draw(t, "freshOperators") == 0 {
				// documents the process has (most likely) never parsed: their private operators are new to it
				op = "text"
				for j := range ds {
					if j%2 == 0 {
						ds[j] = dynBase + rapid.IntRange(0, dynDocs-1).Draw(t, "dynDoc")
					}
				}
			}
			c.Steps = append(c.Steps, Step{Kind: "burst", Docs: ds, G: rapid.IntRange(2, 16).Draw(t, "g"), Op: op})
		case "repeat":
			c.Steps = append(c.Steps, Step{Kind: "repeat", Doc: rapid.IntRange(0, nDocs-1).Draw(t, "doc"), Op: rapid.SampledFrom(ops).Draw(t, "op"), N: rapid.IntRange(2, 30).Draw(t, "n")})
		}
	}
	return c
}

func meta(c Case) vr.Meta {
	nt := false
	poisoned := false
	var labels []string
	for _, st := range c.Steps {
		switch st.Kind {
		case "poison":
			poisoned = true
			labels = append(labels, "poison:"+st.What)
		case "extract", "repeat":
			if poisoned {
				nt = true
				labels = append(labels, "extract-after-poison")
			}
			labels = append(labels, "op:"+st.Op)
		case "burst":
			distinct := map[int]bool{}
			for _, d := range st.Docs {
				distinct[d] = true
			}
			if st.G >= 2 && len(distinct) >= 2 {
				nt = true
				labels = append(labels, "burst")
			}
			for _, d := range st.Docs {
				if d >= dynBase {
					labels = append(labels, "burst:documents-with-new-operators")
				}
			}
		}
	}
	seen := map[string]bool{}
	var u []string
	for _, l := range labels {
		if !seen[l] {
			seen[l] = true
			u = append(u, l)
		}
	}
	js, _ := json.Marshal(c)
	return vr.Meta{FP: string(js), NonTrivial: nt, Labels: u}
}

func TestHistories(t *testing.T) {
	vr.Prop(t, "history", vr.N(300, 4000), genCase, meta, checkCase)
}

// TestOperandLeak is the direct clause at the property's anchor: whatever a previous parse left
// behind must not reach the next one.
func TestOperandLeak(t *testing.T) {
	for i := 0; i < 50; i++ {
		contentstream.NewParser([]byte(fmt.Sprintf("%d %d (junk)", i, i+1))).Parse()
		c := Case{Steps: []Step{{Kind: "extract", Doc: i % nDocs, Op: "contentstream"}}}
		if !vr.One(t, "history", c, meta(c), checkCase) {
			return
		}
	}
}

// TestSpecialDocuments: every hand-written document of the pool meets, once and alone, the operations that
// judge themselves (the random histories reach a given document x operation pair only now and then).
func TestSpecialDocuments(t *testing.T) {
	for doc := 32; doc < nDocs; doc++ {
		opsFor := []string{"text", "facadereuse"}
		switch getDoc(doc).kind {
		case "pdf":
			opsFor = append(opsFor, "sharedreader", "chunkops", "layoutpages")
		case "html":
			opsFor = append(opsFor, "htmlnav", "chunkops")
		default:
			opsFor = append(opsFor, "chunkops")
		}
		for _, op := range opsFor {
			c := Case{Steps: []Step{{Kind: "extract", Doc: doc, Op: op}, {Kind: "repeat", Doc: doc, Op: op, N: 2}}}
			if !vr.One(t, "history", c, meta(c), checkCase) {
				return
			}
		}
	}
}

var _ = bytes.Equal
